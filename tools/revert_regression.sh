#!/bin/sh
# Development aid: every "fix:" commit, reverted on top of HEAD in a scratch worktree, must be reported
# again by the check of its property ("a fixed entry suppresses nothing").
# usage: tools/revert_regression.sh            (prints one line per fix commit)
set -u
map="d235a15:C10 f5d5575:C10 4400df5:C04 1044a2a:C09 4f0ea04:C11 c317bef:C01 2ddc853:C12 0fcac4e:C08 18f4598:C07 2ae37d6:C14 af2a088:C03 86790bf:C15 ed11a0a:C03 4aafd4a:C07 6750221:C07"
for pair in $map; do
  c=${pair%%:*}; id=${pair##*:}
  wt=/tmp/wt/revert-$c
  git -C /repo worktree add -q --detach $wt HEAD 2>/dev/null
  if git -C $wt revert --no-commit $c >/dev/null 2>&1; then
    echo "$c ($id): $(/verif/tools/try_seeded.sh $wt $id | head -1 | cut -c1-200)"
  else
    echo "$c ($id): revert does not apply cleanly on HEAD (later fixes touch the same lines); skipped"
  fi
  git -C /repo worktree remove --force $wt
done
git -C /repo worktree prune
