#!/bin/sh
# run every registered check of a tier on the current tree, one after the other; summary on stdout
tier="${1:-quick}"
[ $# -gt 0 ] && shift
ids="${*:-C01 C02 C03 C04 C05 C06 C07 C08 C09 C10 C11 C12 C13 C14 C15 C16}"
cd "$(dirname "$0")/.."
logs=$(mktemp -d /tmp/run_all.XXXXXX)
for id in $ids; do
  s=$(date +%s)
  ./check $id --tier $tier > $logs/$id.log 2>&1; rc=$?
  e=$(date +%s)
  echo "$id rc=$rc $((e-s))s :: $(grep -c '^VIOLATION' $logs/$id.log) violations, $(grep -c '^KNOWN-FINDING' $logs/$id.log) known :: $(tail -1 $logs/$id.log | cut -c1-160)"
done
echo "logs: $logs"
