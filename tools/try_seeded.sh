#!/bin/sh
# Development aid: run checks against a changed copy of the repository without touching /repo or
# the committed evidence.   usage: tools/try_seeded.sh <repo-dir> <ID> [<ID> ...]
# Prints one line per check: <ID> rc=<exit> <VIOLATION/KNOWN lines>
dir="$1"; shift
out=/tmp/seeded-evidence.$$; mkdir -p "$out/ev" "$out/rp"
for id in "$@"; do
  VERIF_REPO="$dir" VERIF_EVIDENCE="$out/ev" VERIF_REPLAYS="$out/rp" /verif/check "$id" --tier quick > "$out/$id.log" 2>&1
  rc=$?
  echo "$id rc=$rc $(grep -c '^VIOLATION' "$out/$id.log") violation line(s); keys: $(grep 'key=' "$out/$id.log" | sed 's/ ::.*//; s/.*key=//' | sort -u | head -4 | tr '\n' ' ')"
  grep -h "MACHINERY-ERROR" "$out/$id.log" | head -2 | cut -c1-300
done
rm -rf "$out"
