#!/bin/sh
# kill stray check / worker / TLC processes (development aid)
for p in $(pgrep -f 'harness/[m]ain.py') $(pgrep -f 'harness/[w]orker.py') $(pgrep -f 'tlc2[.]TLC'); do kill $p 2>/dev/null; done
rm -rf /verif/.work
