#!/usr/bin/env python3
"""Regenerate /verif/MANIFEST.json from the table below (one entry per built check)."""
import json
from pathlib import Path

VERIF = Path(__file__).resolve().parent.parent
TRUST = ("Trusted: TLC, the four pyenv interpreters 3.7.16/3.8.18/3.9.18/3.10.13 (their dis, PyCode_Addr2Line, inspect "
         "and compilers are the oracle), the harness projections (harness/wk/*.py). The TLA+ environment models are "
         "compared with the interpreters on every event; a disagreement is exit 2, never a verdict. Bounds and corpus as "
         "stated in the evidence file.")

CHECKS = {
    "C15": dict(
        technique="TLA+ MC_Hosts (host-indexed value algebra) enumerates producer/consumer/operation-sequence behaviours; replayed "
                  "with real producers 3.7-3.10 and consumers 3.7-3.13; TLC trace validation (Trace_Hosts)",
        text="Every document of the producers (corpus, snippets, model constants at every position) is loaded, normalised, dumped "
             "and reloaded on every consumer along every operation sequence of the bounded model; TLC recomputes which of the "
             "producer's documents (raw / normalised) must come out and checks the recording.",
        ref="DESIGN.md 5 C15"),
    "C16": dict(
        technique="TLA+ decision table Cli.tla; TLC enumerates all 512 option sets (MC_Cli); each run for real as a subprocess on "
                  "3.7-3.10; stdout split into sections and compared with the in-process API result; TLC trace validation "
                  "(Trace_Cli); programs given as file, stream (/dev/stdin), -c, -e (also with nested scopes), -m (source, "
                  "sourceless .pyc, frozen)",
        text="Exit status and printed sections of every option set are checked against the decision table; the data and JSON "
             "sections must be exactly the API's (normalised or not) for the same program obtained the same way; --dis-after "
             "must list the instructions of --dis.",
        ref="DESIGN.md 5 C16"),
    "C14": dict(
        technique="TLA+ MC_Nesting enumerates nesting shapes (entries referenced once / twice / not at all, two levels); shapes built "
                  "as real nested code objects; TLC trace validation (Trace_Decode, P14.*) of __iter__/all_code_data() against "
                  "the walk of co_consts the specification computes from CPython's reading; corpus and compiler templates",
        text="For every nesting shape of the bounded model, every corpus code object and templates that make the compilers leave "
             "unreferenced or doubly referenced code constants, TLC compares the multiset iteration yields with the constant "
             "table's code objects and the count of all_code_data() with the recursive walk.",
        ref="DESIGN.md 5 C14"),
    "C01": dict(
        technique="TLA+ reference decoder and encoder (Decode, Encode, Lines) with RoundTripModel checked exhaustively by TLC on "
                  "MC_Decode; model streams and corpus code objects round-tripped on the real library with a strict "
                  "attribute-by-attribute comparator; TLC trace validation (Trace_Encode, P01.* and M.*)",
        text="Design level: TLC shows Encode(Decode(c)) = c for every stream of the bounded model in the compilers' domain. "
             "Implementation level: every corpus code object (quick: seeded sample; thorough: each interpreter's whole "
             "stdlib at optimize 0/1/2) is round-tripped and compared in every attribute; TLC validates each recorded "
             "to_code() against the encoder specification.",
        ref="DESIGN.md 5 C01"),
    "C03": dict(
        technique="TLA+ encoder (Encode: tables, jump relaxation loop, assembly, line synthesis, header); TLC exhaustive MC_Relax "
                  "with liveness (termination), pass bound, monotone sizes, jumps land; every jump graph rebuilt by hand as "
                  "CodeData and encoded by the real library; guarded hook logs every relaxation pass; TLC trace validation "
                  "(Trace_Encode) of hand-built, decoded and normalised data against dis/Addr2Line/calling convention",
        text="TLC proves termination and correct landing of the relaxation loop on all jump graphs within the bounds; the real "
             "to_code() on those graphs and on decoded/normalised corpus data is recorded (including each pass of the loop) "
             "and TLC checks that CPython reads the output as the data says and that each pass is the specification's.",
        ref="DESIGN.md 5 C03"),
    "C02": dict(
        technique="TLA+ model of CPython word code (CPyUnits) and of the library decoder (Decode); TLC exhaustive MC_Decode; "
                  "model streams replayed as real code objects; TLC trace validation (Trace_Decode, clauses P02.*) of the "
                  "library's output against dis / PyCode_Addr2Line on generated and compiled code objects (scopes module, shadow, dup, "
                  "wide; sources also recompiled with shifted definition lines; one worker per version under python -O); code "
                  "objects beyond TLC's reach (> 6000 units, the two-prefix bigjump) decided by wk/decode.direct_event with dis + "
                  "Addr2Line and only named in Trace_Decode!Direct",
        text="Every word-code stream of the bounded model and every code object of the corpus is decoded by the real library "
             "on its interpreter; TLC evaluates C02's clauses between the recorded output and the specification's reading "
             "of the same units, which is itself required to equal dis/Addr2Line.",
        ref="DESIGN.md 5 C02"),
    "C04": dict(
        technique="TLA+ model of CPython's parameter layout and calling convention (CPyHeader); TLC exhaustive MC_Signature over "
                  "all signature shapes; shapes rendered to source, compiled on 3.7-3.10; TLC trace validation (P04.*) "
                  "against the calling-convention reading, inspect.signature, __doc__, inspect.is*function; every rendering decoded "
                  "under PYTHONHASHSEED 0..3",
        text="All signature shapes within the bound x function kinds x docstring shapes are compiled by the real compilers and "
             "decoded by the real library; TLC compares the decoded Args/docstring/type with CPython's own reading.",
        ref="DESIGN.md 5 C04"),
    "C05": dict(
        technique="TLA+ Normalize!Sem (meaning of a code object as CPython reads it) checked by TLC on MC_Decode "
                  "(NormalizeModel) and, by trace validation (Trace_Encode P05.*), on CPython's reading of every corpus code "
                  "object before and after from_code/normalize/to_code; MC_Programs behaviours executed twice under "
                  "sys.settrace and compared by TLC (Trace_Exec)",
        text="TLC evaluates the meaning projection on CPython's own reading (dis, PyCode_Addr2Line, header) of the original "
             "and of the normalised code object and requires equality, for every corpus code object; every program of the "
             "bounded grammar model is executed in both forms and the traced behaviours must coincide.",
        ref="DESIGN.md 5 C05"),
    "C06": dict(
        technique="TLA+ Normalize!Canon (canonical data as a function of CPython's reading) checked by TLC on MC_Decode "
                  "(CanonicalModel, NormalizeModel) and by trace validation of the real normalize(from_code(c)) (Trace_Encode "
                  "P06.*); layout variants from an independent assembler; Api.tla histories enumerated by TLC and replayed on "
                  "real objects (Trace_Api)",
        text="Canonical form is decided as equality with a canonical function of CPython's reading, so artefact variants "
             "coincide by construction; verified on every corpus code object, on random layout variants of real modules, and "
             "along every API history within the bound.",
        ref="DESIGN.md 5 C06"),
    "C07": dict(
        technique="TLA+ constant terms and documented JSON form (CPyConst), plainness and a JSON-Schema validator written in "
                  "TLA+ (JsonCodec) applied to the PUBLISHED schema; TLC enumerates terms (MC_Json, injectivity up to LibKey); "
                  "the documented form of a whole document and its reader (JsonDoc: DocOf, FromDoc) with 3576 document shapes (MC_Doc, "
                  "invariant FromDoc(DocOf(x)) = x); real documents tagged node by node and validated by TLC (Trace_Json); TLA+ "
                  "validator cross-checked with the jsonschema package on every document; cycles with default, non-ASCII, sorted "
                  "and reversed key order; integers swept by digit count",
        text="Every constant term of the bounded model at every position of a hand-built CodeData, and decoded/normalised corpus "
             "data, go through to_json_data, strict dumps/loads and from_json_data on the real library; TLC decides plainness, "
             "schema validity, equality, hash and identical code from the recording.",
        ref="DESIGN.md 5 C07"),
    "C08": dict(
        technique="TLA+ partitions LibKey/CPyKey (CPyConst) as the expected equality; all pairs of model terms x 25 route pairs "
                  "compared on the real library; TLC trace validation (Trace_Values); CPyKey bound to ctypes "
                  "_PyCode_ConstantKey; frozen-field and mutable-part probing; the same program by seven routes (equal data, equal "
                  "hash, identical code); single-attribute perturbations; hash agreement along API histories (Trace_Api P08.hash)",
        text="TLC requires real equality among constants built by five routes to coincide with LibKey-equality for every pair of "
             "terms, with hash/set/dict consistency, symmetry and reflexivity, and immutability of every dataclass field.",
        ref="DESIGN.md 5 C08"),
    "C09": dict(
        technique="TLA+ first-use ranks computed from CPython's reading (DecodeProps) + override-removal experiments on the real "
                  "library, validated by TLC (P09.*) on model streams and compiled code objects; reference decoder with the "
                  "encoder-table simulation bound to the code (M.*)",
        text="For every overridden entry at its natural rank the override is stripped on the real library and the re-encoding "
             "compared; TLC decides justification and the additional-args clause from the recorded outcome and its own ranks.",
        ref="DESIGN.md 5 C09"),
    "C10": dict(
        technique="TLA+ model of CPython's line-table assemblers/peephole/readers (CPyLines) and of the library codec (Lines); TLC "
                  "exhaustive MC_Lines; every model table replayed on the real library; TLC trace validation (Trace_Lines) of "
                  "generated and corpus tables; assembler model bound to the real compilers (Trace_Asm)",
        text="TLC checks C10's two clauses on a transcription of the codec for every table the modelled assemblers (+peephole) "
             "emit within the bounds; every such table is replayed on the real library and compared with PyCode_Addr2Line; "
             "recorded runs are validated by TLC against the specification.",
        ref="DESIGN.md 5 C10"),
    "C11": dict(
        technique="TLA+ flag tables per version (Versions) and header decode/encode (Decode!DecodeHeader, EncodeHeader); TLC "
                  "exhaustive MC_Flags over all 2^18 defined-flag words, unknown bits and hand-altered headers; every state "
                  "replayed on the real to_flags_data/from_flags_data and through CodeType/from_code/to_code; TLC trace "
                  "validation (Trace_Flags, P11.*)",
        text="Every flag word / altered header of the bounded model is pushed through the real library on 3.7-3.10; TLC checks "
             "losslessness on known words, an exception on unknown bits, and raise-or-reproduce for every header the real "
             "constructor accepts (the model of the constructor is compared with the real one on every case).",
        ref="DESIGN.md 5 C11"),
    "C12": dict(
        technique="TLA+ history machine Api.tla; TLC enumerates all histories up to a length (MC_Api); each replayed on real "
                  "objects with deep fingerprints of every live object after every call; TLC trace validation (Trace_Api, "
                  "P12.*); JSON codec purity / repeat / alias probes on MC_Json terms and MC_Doc shapes (Trace_Json); history "
                  "independence: documents of another process loaded and encoded first thing and at the end of a worker's life",
        text="Every history of the bounded API machine is executed on several real base programs per interpreter, documents "
             "used as returned; TLC requires that no stored object ever changes, no call raises, and repeated calls agree.",
        ref="DESIGN.md 5 C12"),
    "C13": dict(
        technique="TLA+ MC_Decode exhaustive over jump graphs on word-code streams; replay as real code objects; TLC trace "
                  "validation (Trace_Decode, clauses P13.*) of block structure against dis jump targets; oversized code objects "
                  "(bigjump: a jump operand with two EXTENDED_ARG prefixes) decided by wk/decode.direct_event",
        text="Block starts of the real library's output are compared by TLC with {0} + the instruction indices CPython's jumps "
             "land on, for every stream of the bounded model and every corpus code object.",
        ref="DESIGN.md 5 C13"),
}


def main():
    props = [json.loads(l) for l in open(VERIF / "properties.jsonl")]
    checks = []
    for pid, c in sorted(CHECKS.items()):
        checks.append({
            "property_id": pid,
            "quick_cmd": f"./check {pid} --tier quick",
            "thorough_cmd": f"./check {pid} --tier thorough",
            "evidence_file": f"evidence/{pid}.json",
            "replay_cmd_template": f"./check {pid} --replay {{path}}",
            "engine": "tlc",
            "technique": c["technique"],
            "level_claimed": {"category": "model_checking", "text": c["text"], "design_ref": c["ref"]},
            "level_note": TRUST,
        })
    m = {
        "version": 1,
        "setup_cmd": "./setup.sh",
        "hooks": {
            "guard": "CODE_DATA_VERIF",
            "enable": "workers import code_data from /repo's working tree with CODE_DATA_VERIF=1 in their environment "
                      "(pure Python, nothing to build)",
            "baseline_off_cmd": "cd /repo && /venv/bin/python -m pytest -ra -q -p no:cacheprovider --timeout=900 "
                                "--continue-on-collection-errors",
            "source_commits": json.load(open(VERIF / "tools" / "hook_commits.json")) if (VERIF / "tools" / "hook_commits.json").exists() else [],
            "add_only": True,
        },
        "engines": [{
            "name": "tlc", "path": "/opt/veriftools/tla/tla2tools.jar", "serves_properties": sorted(CHECKS),
            "kind_free_text": "TLA+ specifications in /verif/spec checked with TLC: exhaustive bounded models, trace validation "
                              "of recorded implementation runs, replay of model states into the implementation",
        }],
        "checks": checks,
        "not_applicable": [{"property_id": p["id"], "reason": "check not built yet in this round (planned, see DESIGN.md section 5)"}
                           for p in props if p["id"] not in CHECKS],
        "notes": "Approach and per-property design: DESIGN.md. Known/fixed findings: known_findings.jsonl.",
    }
    json.dump(m, open(VERIF / "MANIFEST.json", "w"), indent=1)
    print("MANIFEST.json:", len(checks), "checks,", len(m["not_applicable"]), "not applicable")


if __name__ == "__main__":
    main()
