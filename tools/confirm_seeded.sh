#!/bin/sh
# Development aid: confirm a seeded change produced by a sub-agent.
# usage: tools/confirm_seeded.sh <ID> "<versions for demo>"     (worktree /tmp/wt/<ID>, outputs /tmp/wt/<ID>.out)
id="$1"; vers="${2:-3.8.18 3.10.13}"
wt=/tmp/wt/$id; out=/tmp/wt/$id.out
( cd $wt && git diff > /tmp/wt/$id.current.diff )
if cmp -s /tmp/wt/$id.current.diff $out/patch.diff; then echo "worktree diff == patch.diff"; else echo "WORKTREE DIFF DIFFERS FROM patch.diff"; diff /tmp/wt/$id.current.diff $out/patch.diff | head -5; fi
( cd $wt && /venv/bin/python -m pytest -q -p no:cacheprovider code_data/_line_mapping_test.py code_data/_flags_data_test.py 2>&1 | tail -1 )
for v in $vers; do
  PYTHONPATH=$wt:/tmp/wt/shim PYTHONDONTWRITEBYTECODE=1 /root/.pyenv/versions/$v/bin/python $out/demo.py >/dev/null 2>&1; a=$?
  PYTHONPATH=/repo:/tmp/wt/shim PYTHONDONTWRITEBYTECODE=1 /root/.pyenv/versions/$v/bin/python $out/demo.py >/dev/null 2>&1; b=$?
  echo "demo on $v: patched rc=$a clean rc=$b"
done
