#!/bin/sh
# Nothing is built: checks import code_data from /repo's working tree and run TLC on /verif/spec.
# This script only verifies that the tools the checks need are present (offline).
set -e
cd "$(dirname "$0")"
for v in 3.7.16 3.8.18 3.9.18 3.10.13 3.11.7 3.12.1 3.13.0; do
  /root/.pyenv/versions/$v/bin/python -c "import sys" || { echo "missing interpreter $v"; exit 1; }
done
test -f /opt/veriftools/tla/tla2tools.jar && java -version >/dev/null 2>&1 || { echo "TLC/java missing"; exit 1; }
/root/.pyenv/versions/3.11.7/bin/python -B -c "
import sys; sys.path.insert(0, 'harness'); import common
for v in common.SUPPORTED:
    w = common.Worker(v); w.req('probe.import_ok'); w.close()
print('setup ok')
"
