------------------------------ MODULE CPyLines ------------------------------
(***************************************************************************)
(* Environment model: what CPython does with line-number tables.           *)
(*                                                                         *)
(*  - the three assemblers (compile.c): co_lnotab as written by 3.7/3.8    *)
(*    ("a37"/"a38": a line marker only on the first instruction of a statement   *)
(*    or of an expression on a new line; an entry is skipped only when     *)
(*    both deltas are 0), by 3.9 ("a39": every instruction carries a line; *)
(*    an entry is skipped when the line delta is 0), and the 3.10          *)
(*    co_linetable writer assemble_line_range ("a310");                    *)
(*  - the <=3.9 peephole optimizer's fix-up of co_lnotab after NOP         *)
(*    removal (peephole.c), which is the only source of zero-width entries *)
(*    and of entries that point past the end of the code;                  *)
(*  - the readers PyCode_Addr2Line (both formats).                         *)
(*                                                                         *)
(* Lines are relative to co_firstlineno.  A table is a sequence of pairs   *)
(* <<byte delta, signed line delta>>.  Every piece of this module is       *)
(* compared with the real interpreters by the harness at every run         *)
(* (harness/c10.py: "assembler binding" and "reader binding").             *)
(***************************************************************************)
EXTENDS Integers, Sequences, FiniteSets, SequencesExt

NoLine == -99999          \* an instruction without a line (3.10), same value as Lines!None

RepC(n, e) == [i \in 1..n |-> e]

(***************************************************************************)
(* assemble_lnotab (<= 3.9), the part after the "skip" test: the entries   *)
(* written for a byte delta db >= 0 and a line delta dl.                   *)
(***************************************************************************)
LnotabEntries(db, dl) ==
    LET nb == db \div 255
        pre == IF db > 255 THEN RepC(nb, <<255, 0>>) ELSE <<>>
        db1 == IF db > 255 THEN db - nb * 255 ELSE db
        big == dl < -128 \/ dl > 127
        k == IF dl < 0 THEN -128 ELSE 127
        nc == IF dl < 0 THEN (0 - dl) \div 128 ELSE dl \div 127
        dl1 == IF big THEN dl - nc * k ELSE dl
        mid == IF big THEN <<<<db1, k>>>> \o RepC(nc - 1, <<0, k>>) ELSE <<>>
        db2 == IF big THEN 0 ELSE db1
    IN pre \o mid \o <<<<db2, dl1>>>>

\* state of the <=3.9 assembler: [tab, off (units), lineno, lineoff (units)]
Asm39Init == [tab |-> <<>>, off |-> 0, lineno |-> 0, lineoff |-> 0]

\* one marker (assemble_lnotab call) for an instruction at s.off with line `line`
LnotabMark(s, line, v39) ==
    LET db == 2 * (s.off - s.lineoff)
        dl == line - s.lineno
        skip == IF v39 THEN dl = 0 ELSE (db = 0 /\ dl = 0)
    IN IF skip THEN s
       ELSE [s EXCEPT !.tab = s.tab \o LnotabEntries(db, dl), !.lineno = line, !.lineoff = s.off]

\* a run = `units` code units that carry the line `line`; only its first instruction
\* carries a marker in 3.7/3.8, and later markers of a 3.9 run are skipped (dl = 0).
LnotabRun(s, units, line, v39) ==
    [LnotabMark(s, line, v39) EXCEPT !.off = s.off + units]

(***************************************************************************)
(* 3.10: assemble_line_range.  State [tab, off, lineno, start, prev].      *)
(***************************************************************************)
Asm310Init == [tab |-> <<>>, off |-> 0, lineno |-> 0, start |-> 0, prev |-> 0]

RECURSIVE Split127(_, _), Split254(_, _, _, _)
\* entries (0, +-127) written while |ld| > 127; returns <<entries, remaining ld>>
Split127(acc, ld) ==
    IF ld > 127 THEN Split127(Append(acc, <<0, 127>>), ld - 127)
    ELSE IF ld < -127 THEN Split127(Append(acc, <<0, -127>>), ld + 127)
    ELSE <<acc, ld>>

Split254(acc, bd, ld, noline) ==
    IF bd > 254 THEN Split254(Append(acc, <<254, ld>>), bd - 254, IF noline THEN -128 ELSE 0, noline)
    ELSE Append(acc, <<bd, ld>>)

LineRange(s) ==
    LET bd == 2 * (s.off - s.start) IN
    IF bd = 0 THEN s
    ELSE IF s.lineno = NoLine
         THEN [s EXCEPT !.tab = s.tab \o Split254(<<>>, bd, -128, TRUE), !.start = s.off]
         ELSE LET sp == Split127(<<>>, s.lineno - s.prev)
              IN [s EXCEPT !.tab = s.tab \o sp[1] \o Split254(<<>>, bd, sp[2], FALSE),
                           !.prev = s.lineno, !.start = s.off]

LinetableRun(s, units, line) ==
    LET s1 == IF line = s.lineno THEN s ELSE [LineRange(s) EXCEPT !.lineno = line]
    IN [s1 EXCEPT !.off = s1.off + units]

LinetableFinish(s) == LineRange(s)

(***************************************************************************)
(* Peephole fix-up (<= 3.9).  `removed` is the set of unit indices (0-     *)
(* based) turned into NOPs and deleted.  Every entry's byte delta is       *)
(* recomputed through the old-offset -> new-offset map; line deltas stay.  *)
(* The optimizer is bypassed when some byte delta is 255 (see below).       *)
(***************************************************************************)
\* 3.8/3.9 look at the byte deltas only; 3.7 scans every byte of the table (memchr), so a line
\* delta of -1 (0xff) bypasses the optimizer as well.  (Found by the assembler binding.)
PeepholeApplies(asm, tab) ==
    \A i \in DOMAIN tab : tab[i][1] # 255 /\ (asm = "a37" => tab[i][2] # -1)

NewIndex(removed, u) == u - Cardinality({r \in removed : r < u})

PeepholeFixup(tab, removed) ==
    LET step(s, e) ==
            LET cum == s.cum + e[1]
                new == 2 * NewIndex(removed, cum \div 2)
            IN [cum |-> cum, last |-> new, out |-> Append(s.out, <<new - s.last, e[2]>>)]
    IN FoldLeft(step, [cum |-> 0, last |-> 0, out |-> <<>>], tab).out


(***************************************************************************)
(* Whole-program forms (used by the assembler binding, Trace_Asm.tla).     *)
(***************************************************************************)
AssembleLnotab(prog, v39) ==
    FoldLeft(LAMBDA s, r: LnotabRun(s, r[1], r[2], v39), Asm39Init, prog)

AssembleLinetable(prog) ==
    LinetableFinish(FoldLeft(LAMBDA s, r: LinetableRun(s, r[1], r[2]), Asm310Init, prog))

TotalUnits(prog) == FoldLeft(LAMBDA a, r: a + r[1], 0, prog)

\* <<table, number of code units>> the compiler produces for the line program `prog` when the
\* units `removed` are dead / folded away (ignored on 3.10, where the peephole no longer exists)
Compiled(asm, prog, removed) ==
    IF asm = "a310" THEN <<AssembleLinetable(prog).tab, TotalUnits(prog)>>
    ELSE LET t == AssembleLnotab(prog, asm = "a39").tab
         IN IF removed # {} /\ PeepholeApplies(asm, t)
            THEN <<PeepholeFixup(t, removed), TotalUnits(prog) - Cardinality(removed)>>
            ELSE <<t, TotalUnits(prog)>>

(***************************************************************************)
(* Readers.                                                                *)
(***************************************************************************)
\* PyCode_Addr2Line for co_lnotab: relative line of byte offset addrq
Addr2LineLnotab(tab, addrq) ==
    LET step(s, e) ==
            IF s.stop THEN s
            ELSE LET addr == s.addr + e[1]
                 IN IF addr > addrq THEN [s EXCEPT !.stop = TRUE]
                    ELSE [s EXCEPT !.addr = addr, !.line = s.line + e[2]]
    IN FoldLeft(step, [addr |-> 0, line |-> 0, stop |-> FALSE], tab).line

\* PyCode_Addr2Line for co_linetable: NoLine where CPython answers -1
Addr2LineLinetable(tab, addrq) ==
    LET step(s, e) ==
            LET end == s.end + e[1]
                comp == IF e[2] = -128 THEN s.comp ELSE s.comp + e[2]
                here == s.end <= addrq /\ addrq < end
            IN [end |-> end, comp |-> comp,
                res |-> IF here THEN (IF e[2] = -128 THEN NoLine ELSE comp) ELSE s.res]
    IN FoldLeft(step, [end |-> 0, comp |-> 0, res |-> NoLine], tab).res

Addr2Line(tab, addrq, lt) ==
    IF lt THEN Addr2LineLinetable(tab, addrq) ELSE Addr2LineLnotab(tab, addrq)

\* All unit offsets of a code object of n units, read in one pass over the table (linear; this is
\* what trace validation uses on real tables).  MC_Lines checks that it equals the per-offset
\* transcription of PyCode_Addr2Line above on every bounded table.
MinC(a, b) == IF a < b THEN a ELSE b

ReadAllLnotab(tab, n) ==
    LET step(s, e) ==
            LET cum == s.cum + e[1]
                upto == MinC(n, (cum + 1) \div 2)
                fill == IF upto > Len(s.out) THEN RepC(upto - Len(s.out), s.line) ELSE <<>>
            IN [cum |-> cum, line |-> s.line + e[2], out |-> s.out \o fill]
        r == FoldLeft(step, [cum |-> 0, line |-> 0, out |-> <<>>], tab)
    IN r.out \o RepC(n - Len(r.out), r.line)

ReadAllLinetable(tab, n) ==
    LET step(s, e) ==
            LET end == s.end + e[1]
                comp == IF e[2] = -128 THEN s.comp ELSE s.comp + e[2]
                upto == MinC(n, (end + 1) \div 2)
                fill == IF upto > Len(s.out)
                        THEN RepC(upto - Len(s.out), IF e[2] = -128 THEN NoLine ELSE comp) ELSE <<>>
            IN [end |-> end, comp |-> comp, out |-> s.out \o fill]
        r == FoldLeft(step, [end |-> 0, comp |-> 0, out |-> <<>>], tab)
    IN r.out \o RepC(n - Len(r.out), NoLine)

ReadAll(tab, n, lt) == IF lt THEN ReadAllLinetable(tab, n) ELSE ReadAllLnotab(tab, n)

ReadAllSlow(tab, n, lt) == [k \in 1..n |-> Addr2Line(tab, 2 * (k - 1), lt)]

=============================================================================
