------------------------------ MODULE Trace_Asm ------------------------------
(***************************************************************************)
(* Environment binding for CPyLines.tla: each event is one program that    *)
(* the harness built (as an AST with chosen line numbers), compiled with a *)
(* real compiler, and described abstractly as a line program (runs of code *)
(* units with a line) plus the units the <=3.9 peephole removes.  The      *)
(* modelled assembler must produce exactly the table the compiler wrote.   *)
(* A failure is a defect of the model (machinery), not of the library.     *)
(***************************************************************************)
EXTENDS Integers, Sequences, SequencesExt, FiniteSets, TLC, TLCExt, Json, IOUtils

C == INSTANCE CPyLines
L == INSTANCE Lines

Tr == ndJsonDeserialize(IOEnv.TRACE_FILE)

VARIABLES l
vars == <<l>>


\* removed units are logged as half-open ranges [a, b)
RemSet(rs) == UNION {{k \in r[1]..(r[2] - 1) : TRUE} : r \in ToSet(rs)}

Init == l = 1

Step == l <= Len(Tr) /\ l' = l + 1

Spec == Init /\ [][Step]_vars

EventChecked ==
    (l > 1) => LET e == Tr[l - 1]
                   r == C!Compiled(e.asm, e.runs, RemSet(e.removed))
                   ok == L!ItemsToBytes(r[1]) = e.table /\ r[2] = e.ncode
               IN (~ok) => PrintT("@@" \o ToJson([id |-> e.id, model |-> L!ItemsToBytes(r[1]), ncode |-> r[2]]) \o "@@")

TraceAccepted == TLCGet("stats").diameter - 1 = Len(Tr)
=============================================================================
