-------------------------------- MODULE MC_Cli --------------------------------
(* All 2^4 x 2^5 option sets of the command line; each is printed with its expected outcome. *)
EXTENDS Cli, SequencesExt

CONSTANTS Emit
VARIABLES o
vars == <<o>>
Init == o \in [src : SUBSET Sources, flags : SUBSET Flags]
Next == UNCHANGED vars
Spec == Init /\ [][Next]_vars

CliModel ==
    /\ Emit => PrintT("@@" \o ToJson([src |-> SetToSeq(o.src), flags |-> SetToSeq(o.flags),
                                      exit |-> Outcome(o).exit, sections |-> Outcome(o).sections]) \o "@@")
    /\ (Outcome(o).exit = 0) <=> (NSources(o) = 1)
    /\ Outcome(o).exit = 0 => Len(Outcome(o).sections) >= 1
=============================================================================
