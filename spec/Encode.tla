------------------------------- MODULE Encode -------------------------------
(***************************************************************************)
(* The library's encoder, action by action:                                *)
(*   code_data/_blocks.py     blocks_to_bytes, from_arg, FromArgs,         *)
(*                            _instrsize                                   *)
(*   code_data/_code_data.py  from_code_data                               *)
(* (header part: EncodeHeader.tla; line table: Lines.tla).                 *)
(*                                                                         *)
(* The abstract data `d` is the projection the harness logs:               *)
(*   d.instrs        flat sequence of instruction tuples                   *)
(*                   <<name, kind, val, x, nargs_override, line, lovr>>    *)
(*                   (see Decode.tla; for "J" val is the target BLOCK)     *)
(*   d.block_starts  0-based index of the first instruction of each block  *)
(*   d.is_fn, d.args, d.doc, d.fn_type, d.annotations, d.nested,           *)
(*   d.freevars, d.additional, d.addline, d.first                          *)
(* km maps a value token to <<key, pyeq>>: the encoder's "same entry" key  *)
(* (hash of a name, constant_key of a constant) and its class under        *)
(* Python's == (what FromArgs.__setitem__ asserts).                        *)
(*                                                                         *)
(* The jump-size relaxation loop is RelaxPass, one iteration of            *)
(* `while changed_instruction_lengths`; it is an action of MC_Relax and    *)
(* the step that the guarded hook in /repo logs (Trace_Encode).            *)
(***************************************************************************)
EXTENDS Integers, Sequences, SequencesExt, FiniteSets, TLC

L == INSTANCE Lines
V == INSTANCE Versions
EH == INSTANCE EncodeHeader

None == L!None
Absent == L!Absent

Put(f, k, v) == (k :> v) @@ f
\* (SequencesExt!FlattenSeq is a recursive function definition: too deep for long code objects)
Flatten(seqs) == FoldLeft(LAMBDA acc, x: acc \o x, <<>>, seqs)
EmptyFn == [i \in {} |-> 0]

\* _instrsize: code units needed for an operand
InstrSize(arg) ==
    IF arg < 0 THEN 4
    ELSE IF arg <= 255 THEN 1 ELSE IF arg <= 65535 THEN 2 ELSE IF arg <= 16777215 THEN 3 ELSE 4

\* `instruction._n_args_override or _instrsize(arg)`: an override of 0 counts as absent
SizeOf(ins, arg) == IF ins[5] > 0 THEN ins[5] ELSE InstrSize(arg)

(***************************************************************************)
(* FromArgs: [i2a |-> index -> value token, a2i |-> key -> index, exc]     *)
(***************************************************************************)
EmptyFA == [i2a |-> EmptyFn, a2i |-> EmptyFn, exc |-> ""]

\* __setitem__: an occupied slot must hold the same entry (same key), else ValueError
\* ("fix:" commit for C03; km[t][2], the class under Python's ==, is no longer consulted)
SetItem(fa, i, tok, km) ==
    IF fa.exc # "" THEN fa
    ELSE IF i \in DOMAIN fa.i2a /\ km[fa.i2a[i]][1] # km[tok][1] THEN [fa EXCEPT !.exc = "ValueError"]
    ELSE [fa EXCEPT !.i2a = Put(fa.i2a, i, tok), !.a2i = Put(fa.a2i, km[tok][1], i)]

\* add(value, index_override) -> <<fa', index>>
Add(fa, tok, ovr, km) ==
    IF ovr # -1 THEN <<SetItem(fa, ovr, tok, km), ovr>>
    ELSE IF km[tok][1] \in DOMAIN fa.a2i THEN <<fa, fa.a2i[km[tok][1]]>>
    ELSE LET idx == Cardinality(DOMAIN fa.i2a) IN <<SetItem(fa, idx, tok, km), idx>>

\* to_tuple: the values in index order; indices that leave a gap raise ValueError (HasGap)
HasGap(fa) == DOMAIN fa.i2a # 0..(Cardinality(DOMAIN fa.i2a) - 1)
ToTuple(fa) ==
    LET idxs == SetToSortSeq(DOMAIN fa.i2a, <) IN [j \in DOMAIN idxs |-> fa.i2a[idxs[j]]]

(***************************************************************************)
(* Tables: t = [names, varnames, cellvars, consts : FromArgs, exc]         *)
(***************************************************************************)
IndexOf(seq, x) == IF \E i \in DOMAIN seq : seq[i] = x THEN (CHOOSE i \in DOMAIN seq : seq[i] = x /\ \A j \in 1..(i - 1) : seq[j] # x) - 1 ELSE -1

\* the tables before any instruction is looked at
SeedTables(d, km) ==
    LET params == IF d.is_fn THEN EH!ArgsToVarnames(d.args) ELSE <<>>
        vn == FoldLeft(LAMBDA fa, i: SetItem(fa, i - 1, params[i], km), EmptyFA, [i \in DOMAIN params |-> i])
        ks == IF d.is_fn /\ d.doc # <<>> THEN SetItem(EmptyFA, 0, d.doc[1], km) ELSE EmptyFA
    IN [names |-> EmptyFA, varnames |-> vn, cellvars |-> EmptyFA, consts |-> ks, exc |-> ""]

\* from_arg: <<tables', integer operand>>.  a = <<kind, val, x>>; sk = TRUE iff val is a str constant
FromArg(t, a, d, km, strToks, noneTok) ==
    LET kind == a[1] val == a[2] x == a[3] IN
    IF t.exc # "" THEN <<t, 0>> ELSE
    CASE kind = "0" -> <<t, val>>
      [] kind = "J" -> <<t, 1>>
      [] kind = "I" -> <<t, val>>
      [] kind = "N" -> LET r == Add(t.names, val, x, km) IN <<[t EXCEPT !.names = r[1], !.exc = r[1].exc], r[2]>>
      [] kind = "V" -> LET r == Add(t.varnames, val, x, km) IN <<[t EXCEPT !.varnames = r[1], !.exc = r[1].exc], r[2]>>
      [] kind = "C" -> LET r == Add(t.cellvars, val, x, km) IN <<[t EXCEPT !.cellvars = r[1], !.exc = r[1].exc], r[2]>>
      [] kind = "F" -> LET i == IndexOf(d.freevars, val)
                       IN IF i = -1 THEN <<[t EXCEPT !.exc = "ValueError"], 0>> ELSE <<t, i>>
      [] kind = "K" ->
            \* a function without docstring whose first constant is a string gets None in slot 0 first
            LET prepend == d.is_fn /\ d.doc = <<>> /\ DOMAIN t.consts.i2a = {} /\ val \in strToks /\ x = -1
                c0 == IF prepend THEN SetItem(t.consts, 0, noneTok, km) ELSE t.consts
                r == Add(c0, val, x, km)
            IN <<[t EXCEPT !.consts = r[1], !.exc = r[1].exc], r[2]>>
      [] OTHER -> <<[t EXCEPT !.exc = "TypeError"], 0>>

\* first visit of every instruction (inside the first iteration of the loop): tables and operands
AssignOperands(d, km, strToks, noneTok) ==
    LET step(s, ins) ==
            LET r == FromArg(s.t, <<ins[2], ins[3], ins[4]>>, d, km, strToks, noneTok)
            IN [t |-> r[1], args |-> Append(s.args, r[2])]
    IN FoldLeft(step, [t |-> SeedTables(d, km), args |-> <<>>], d.instrs)

(***************************************************************************)
(* Layout and the relaxation loop.                                         *)
(***************************************************************************)
\* start offset (in code units) of every instruction, plus the total as last element
Offsets(d, args) ==
    FoldLeft(LAMBDA acc, i: Append(acc, acc[Len(acc)] + SizeOf(d.instrs[i], args[i])),
             <<0>>, [i \in DOMAIN d.instrs |-> i])

NBlocks(d) == Len(d.block_starts)

\* one iteration of `while changed_instruction_lengths` (after the operands exist):
\* offsets from the current sizes, then every jump operand from those offsets
RelaxPass(d, args, scale) ==
    LET offs == Offsets(d, args)
        n == Len(d.instrs)
        mult == IF scale = 2 THEN 1 ELSE 2       \* operand counts units from 3.10, bytes before
        blockoff(b) == offs[d.block_starts[b + 1] + 1]
        badTarget == \E i \in 1..n : d.instrs[i][2] = "J" /\ ~(d.instrs[i][3] \in 0..(NBlocks(d) - 1))
        new == [i \in 1..n |->
                  LET ins == d.instrs[i] IN
                  IF ins[2] # "J" \/ badTarget THEN args[i]
                  ELSE IF ins[4] = 1 THEN (blockoff(ins[3]) - offs[i + 1]) * mult
                       ELSE mult * blockoff(ins[3])]
        changed == \E i \in 1..n : d.instrs[i][2] = "J" /\ ~(d.instrs[i][5] > 0)
                                   /\ SizeOf(d.instrs[i], args[i]) # InstrSize(new[i])
    IN [args |-> new, changed |-> changed /\ ~badTarget, exc |-> IF badTarget THEN "KeyError" ELSE ""]

\* the loop, bounded: returns [args, passes, exc]; passes = -1 if it did not stop within `bound`
RECURSIVE RelaxLoop(_, _, _, _, _)
RelaxLoop(d, args, scale, k, bound) ==
    LET r == RelaxPass(d, args, scale) IN
    IF r.exc # "" THEN [args |-> args, passes |-> k, exc |-> r.exc]
    ELSE IF ~r.changed THEN [args |-> r.args, passes |-> k, exc |-> ""]
    ELSE IF k >= bound THEN [args |-> r.args, passes |-> -1, exc |-> "NonTermination"]
    ELSE RelaxLoop(d, r.args, scale, k + 1, bound)

\* what the guarded hook logs after every pass: the jump operands and the loop flag
JumpArgs(d, args) == SelectSeq([i \in DOMAIN d.instrs |-> IF d.instrs[i][2] = "J" THEN <<args[i]>> ELSE <<>>],
                               LAMBDA x: x # <<>>)

RECURSIVE RelaxSeq(_, _, _, _, _)
RelaxSeq(d, args, scale, k, bound) ==
    LET r == RelaxPass(d, args, scale) IN
    IF r.exc # "" THEN <<>>
    ELSE <<<<[j \in DOMAIN JumpArgs(d, r.args) |-> JumpArgs(d, r.args)[j][1]], r.changed>>>>
         \o (IF r.changed /\ k < bound THEN RelaxSeq(d, r.args, scale, k + 1, bound) ELSE <<>>)

(***************************************************************************)
(* Assembly.                                                               *)
(***************************************************************************)
\* byte i (0 = lowest) of an operand, two's complement for negatives (arg >> 8i & 0xFF)
ByteOf(arg, i) ==
    LET p == CASE i = 0 -> 1 [] i = 1 -> 256 [] i = 2 -> 65536 [] OTHER -> 16777216
    IN IF arg >= 0 THEN (arg \div p) % 256 ELSE 255 - (((-arg - 1) \div p) % 256)

\* code units <<opname, byte>> of one instruction
UnitsOf(ins, arg) ==
    LET n == SizeOf(ins, arg) IN
    [j \in 1..n |-> <<IF j = n THEN ins[1] ELSE "EXTENDED_ARG", ByteOf(arg, n - j)>>]

\* the operands every instruction has before the layout loop starts: first visit of every
\* instruction, then the additional args, then the freevar shift by the number of cell variables
\* (the shift used to come after the loop; "fix:" commit for C03/freeshift)
Prepared(d, km, strToks, noneTok) ==
    LET a0 == AssignOperands(d, km, strToks, noneTok)
        t1 == FoldLeft(LAMBDA t, a: FromArg(t, a, d, km, strToks, noneTok)[1], a0.t, d.additional)
        ncell == Cardinality(DOMAIN t1.cellvars.i2a)
    IN [t |-> t1, ncell |-> ncell,
        args |-> [i \in DOMAIN d.instrs |-> IF d.instrs[i][2] = "F" THEN a0.args[i] + ncell ELSE a0.args[i]]]

\* the whole of blocks_to_bytes + from_code_data as one function of the abstract data
Encode(d, ver, km, strToks, noneTok, bound) ==
    LET scale == V!JumpScale(ver)
        lt == V!UseLinetable(ver)
        pr == Prepared(d, km, strToks, noneTok)
        t1 == pr.t
        ncell == pr.ncell
        rl == IF t1.exc # "" THEN [args |-> pr.args, passes |-> 0, exc |-> ""] ELSE RelaxLoop(d, pr.args, scale, 1, bound)
        n == Len(d.instrs)
        args == rl.args
        units == Flatten([i \in 1..n |-> UnitsOf(d.instrs[i], args[i])])
        offs == Offsets(d, args)
        ncode == offs[n + 1]
        \* line mapping: one key per instruction (first unit), the additional line after the end
        hasadd == d.addline # <<>>
        rel(x) == IF x = None THEN None ELSE x - d.first
        sizes == [i \in 1..n |-> SizeOf(d.instrs[i], args[i])]
        tailL == IF hasadd THEN <<rel(d.addline[1][1])>> ELSE <<>>
        tailA == IF hasadd THEN <<d.addline[1][2]>> ELSE <<>>
        \* every code unit of an instruction is on the instruction's line ("fix:" commit for C01/3.10:
        \* the last section of a co_linetable must cover the EXTENDED_ARG prefixes of the last instruction)
        lines == Flatten([i \in 1..n |-> L!Rep(sizes[i], rel(d.instrs[i][6]))]) \o tailL
        addl == Flatten([i \in 1..n |-> <<d.instrs[i][7]>> \o L!Rep(sizes[i] - 1, <<>>)]) \o tailA
        noneLine == \E k \in DOMAIN lines : lines[k] = None
        table == L!FromLineMapping([lines |-> lines, addl |-> addl], lt)
        varnames == ToTuple(t1.varnames)
        h == EH!EncodeHeader(d, ver, Len(d.freevars) = 0 /\ ncell = 0)
        exc == IF t1.exc # "" THEN t1.exc
               ELSE IF rl.exc # "" THEN rl.exc
               ELSE IF HasGap(t1.names) \/ HasGap(t1.varnames) \/ HasGap(t1.cellvars) \/ HasGap(t1.consts) THEN "ValueError"
               ELSE IF d.is_fn /\ SubSeq(varnames, 1, Len(h.params)) # h.params THEN "AssertionError"
               ELSE IF ~lt /\ noneLine THEN "TypeError"
               ELSE h.exc
    IN IF exc # "" THEN [exc |-> exc, passes |-> rl.passes]
       ELSE [exc |-> "", passes |-> rl.passes,
             units |-> units, names |-> ToTuple(t1.names), varnames |-> varnames,
             cellvars |-> ToTuple(t1.cellvars), consts |-> ToTuple(t1.consts), freevars |-> d.freevars,
             table |-> table, flags |-> h.flags, argcount |-> h.argcount, posonly |-> h.posonly,
             kwonly |-> h.kwonly, nlocals |-> Len(varnames), first |-> d.first]

=============================================================================
