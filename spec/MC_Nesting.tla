------------------------------ MODULE MC_Nesting ------------------------------
(***************************************************************************)
(* Bounded model for C14: the shapes in which code objects nest.  A tree   *)
(* is a sequence of entries <<mode, subtree>>: one code constant of the     *)
(* table each, referenced by one LOAD_CONST ("once"), by two ("twice": the  *)
(* same table entry used from two places) or by none ("unref": the <=3.9    *)
(* peephole removed the code that used it, `if 0:` bodies, ...).           *)
(*   Expected(t)  what iteration must yield: every table entry once         *)
(*   RefIter(t)   the reference model of CodeData.__iter__                  *)
(* Every tree is printed; the harness builds it as real nested code         *)
(* objects and validates the real iteration with Trace_Decode (clauses P14).     *)
(***************************************************************************)
EXTENDS Integers, Sequences, SequencesExt, FiniteSets, TLC, Json

CONSTANTS MaxTop, MaxChild, Emit

Modes == {"once", "twice", "unref"}

\* all trees of depth <= 1 with at most n entries
Leaves(n) == UNION {[1..k -> {<<m, <<>>>> : m \in Modes}] : k \in 0..n}
Trees == UNION {[1..k -> {<<m, c>> : m \in Modes, c \in Leaves(MaxChild)}] : k \in 0..MaxTop}

VARIABLES tree
vars == <<tree>>
Init == tree \in Trees
Next == UNCHANGED vars
Spec == Init /\ [][Next]_vars

\* number of code objects all_code_data() must yield for a tree: itself + everything below
RECURSIVE Count(_)
Count(t) == 1 + FoldLeft(LAMBDA a, e: a + Count(e[2]), 0, t)

\* how many objects the reference __iter__ yields at the top level: one per distinct table entry
\* that any instruction or additional argument holds ("fix:" commit for C14)
RefIterCount(t) == Len(t)
ExpectedCount(t) == Len(t)

IterModel ==
    /\ Emit => PrintT("@@" \o ToJson(tree) \o "@@")
    /\ RefIterCount(tree) = ExpectedCount(tree)
=============================================================================
