------------------------------ MODULE MC_Nesting ------------------------------
(***************************************************************************)
(* Bounded model for C14: the shapes in which code objects nest.  A tree   *)
(* is a sequence of entries <<mode, subtree>>: one code constant of the     *)
(* table each, referenced by one LOAD_CONST ("once"), by two ("twice": the  *)
(* same table entry used from two places) or by none ("unref": the <=3.9    *)
(* peephole removed the code that used it, `if 0:` bodies, ...).  A third  *)
(* component says whether the entry is a TWIN of the entry before it: a    *)
(* separate code object that decodes to EQUAL data (CPython keeps two      *)
(* lambdas apart when each folded its own NaN, the library identifies all  *)
(* NaNs); a twin must still be yielded as often as it is in the table.     *)
(*   Expected(t)  what iteration must yield: every table entry once         *)
(*   RefIter(t)   the reference model of CodeData.__iter__                  *)
(* Every tree is printed; the harness builds it as real nested code         *)
(* objects and validates the real iteration with Trace_Decode (clauses P14).     *)
(***************************************************************************)
EXTENDS Integers, Sequences, SequencesExt, FiniteSets, TLC, Json

CONSTANTS MaxTop, MaxChild, Emit

Modes == {"once", "twice", "unref"}

\* all trees of depth <= 1 with at most n entries
\* (twins at the top level only, and never as the first entry: keeps the enumeration at ~2x the twin-free one)
Leaves(n) == UNION {[1..k -> {<<m, <<>>, FALSE>> : m \in Modes}] : k \in 0..n}
Trees == {t \in UNION {[1..k -> {<<m, c, tw>> : m \in Modes, c \in Leaves(MaxChild), tw \in BOOLEAN}] : k \in 0..MaxTop} :
             /\ (Len(t) >= 1 => ~t[1][3])
             /\ (Len(t) > 2 => \A i \in DOMAIN t : ~t[i][3])}

VARIABLES tree
vars == <<tree>>
Init == tree \in Trees
Next == UNCHANGED vars
Spec == Init /\ [][Next]_vars

\* number of code objects all_code_data() must yield for a tree: itself + everything below
RECURSIVE Count(_)
Count(t) == 1 + FoldLeft(LAMBDA a, e: a + Count(e[2]), 0, t)

\* how many objects the reference __iter__ yields at the top level: one per distinct table entry
\* that any instruction or additional argument holds ("fix:" commit for C14)
RefIterCount(t) == Len(t)
ExpectedCount(t) == Len(t)

IterModel ==
    /\ Emit => PrintT("@@" \o ToJson(tree) \o "@@")
    /\ RefIterCount(tree) = ExpectedCount(tree)
=============================================================================
