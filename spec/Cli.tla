--------------------------------- MODULE Cli ---------------------------------
(***************************************************************************)
(* The decision table of the python-code-data command (code_data/_cli.py). *)
(* Options are a record of booleans: which program sources are supplied    *)
(* (file, -c, -e, -m; "supplied" means given with a non-empty value) and    *)
(* which output flags are set.  Outcome(o):                                 *)
(*   exactly one source  -> exit 0 and the printed sections, in order:      *)
(*        source (if --source), dis (if --dis), the CodeData - normalised   *)
(*        unless --no-normalize -, its JSON (if --json), dis-after          *)
(*   otherwise           -> usage error (argparse exit status 2)            *)
(***************************************************************************)
EXTENDS Integers, Sequences, FiniteSets, TLC, Json

Sources == {"file", "c", "e", "m"}
Flags == {"dis", "dis_after", "source", "no_normalize", "json"}

\* o.src \subseteq Sources, o.flags \subseteq Flags
NSources(o) == Cardinality(o.src)
UsageError(o) == NSources(o) # 1

Sections(o) ==
    (IF "source" \in o.flags THEN <<"source">> ELSE <<>>)
    \o (IF "dis" \in o.flags THEN <<"dis">> ELSE <<>>)
    \o <<IF "no_normalize" \in o.flags THEN "data_raw" ELSE "data_norm">>
    \o (IF "json" \in o.flags THEN <<IF "no_normalize" \in o.flags THEN "json_raw" ELSE "json_norm">> ELSE <<>>)
    \o (IF "dis_after" \in o.flags THEN <<"dis_after">> ELSE <<>>)

Outcome(o) == IF UsageError(o) THEN [exit |-> 2, sections |-> <<>>] ELSE [exit |-> 0, sections |-> Sections(o)]

=============================================================================
