----------------------------- MODULE MC_Programs -----------------------------
(***************************************************************************)
(* A grammar machine whose behaviours are small terminating Python         *)
(* programs: each step appends one statement template to the body of       *)
(* `def f(a, b)`.  The harness renders a behaviour to source text,         *)
(* compiles it on 3.7-3.10, normalises the code through the library and    *)
(* executes both code objects under sys.settrace (C05, behavioural part).  *)
(* The templates (harness/c05.py) cover: straight-line code, if/else,      *)
(* for, while, try/except/finally, nested def with every parameter kind,   *)
(* closure, comprehension, with, print, lambda, generator, early return    *)
(* with dead code, raise, multi-line call, class with docstring.           *)
(***************************************************************************)
EXTENDS Integers, Sequences, TLC, Json

CONSTANTS NTemplates, MaxLen, Emit

VARIABLES prog
vars == <<prog>>

Init == prog = <<>>
Add(t) == Len(prog) < MaxLen /\ prog' = Append(prog, t)
Next == \E t \in 1..NTemplates : Add(t)
Spec == Init /\ [][Next]_vars

\* complete programs are printed for replay (always TRUE)
EmitProgram == (Emit /\ Len(prog) = MaxLen) => PrintT("@@" \o ToJson(prog) \o "@@")
=============================================================================
