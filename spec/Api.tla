--------------------------------- MODULE Api ---------------------------------
(***************************************************************************)
(* The history machine: what a user can do with the public API, as a state *)
(* machine over a store of live objects (C06, C07, C12, C15).              *)
(*                                                                         *)
(* An object is [kind, val]:                                               *)
(*   kind "code"  val "L0" (a compiled code object), "L1" (a layout        *)
(*                variant of it: same meaning, other serialisation),       *)
(*                "LC" (the canonical layout: to_code of normalised data)  *)
(*   kind "data"  val "D0" "D1" "DC" (decoded from L0, L1, LC), "N"        *)
(*                (normalised)                                             *)
(*   kind "json" / "text"  val = the val of the data it was made from, or  *)
(*                "M" once the user has mutated the document in place      *)
(* Every action allocates its result as a new object; nothing else in the  *)
(* store may change (C12).  The value algebra IS the statement of the      *)
(* properties: two objects with the same kind and val must be equal (and   *)
(* hash-equal / bit-identical), e.g. Normalize of anything is "N" (C06),   *)
(* FromJson(ToJson(x)) is x (C07), ToCode(FromCode(c)) is c (C01).         *)
(* The harness replays behaviours of this machine on real objects and      *)
(* Trace_Api.tla validates what it recorded.                               *)
(***************************************************************************)
EXTENDS Integers, Sequences, FiniteSets, TLC

VARIABLES store,   \* sequence of objects
          hist     \* sequence of <<op, argument index>> (observation only)

vars == <<store, hist>>

Obj(k, v) == [kind |-> k, val |-> v]

InitStore == <<Obj("code", "L0"), Obj("code", "L1")>>

DataOfCode(v) == CASE v = "L0" -> "D0" [] v = "L1" -> "D1" [] OTHER -> "DC"
CodeOfData(v) == CASE v = "D0" -> "L0" [] v = "D1" -> "L1" [] OTHER -> "LC"     \* "DC" and "N" give "LC"

\* the result of applying op to object o, or "none" when op does not apply
Apply(op, o) ==
    CASE op = "FromCode" /\ o.kind = "code" -> Obj("data", DataOfCode(o.val))
      [] op = "ToCode" /\ o.kind = "data" -> Obj("code", CodeOfData(o.val))
      [] op = "Normalize" /\ o.kind = "data" -> Obj("data", "N")
      [] op = "ToJson" /\ o.kind = "data" -> Obj("json", o.val)
      [] op = "Dumps" /\ o.kind = "json" /\ o.val # "M" -> Obj("text", o.val)
      [] op = "Loads" /\ o.kind = "text" -> Obj("json", o.val)
      [] op = "FromJson" /\ o.kind = "json" /\ o.val # "M" -> Obj("data", o.val)
      [] OTHER -> Obj("none", "none")

Ops == {"FromCode", "ToCode", "Normalize", "ToJson", "Dumps", "Loads", "FromJson"}

Do(op, i) ==
    /\ i \in DOMAIN store
    /\ Apply(op, store[i]).kind # "none"
    /\ store' = Append(store, Apply(op, store[i]))
    /\ hist' = Append(hist, <<op, i>>)

\* the user mutates a returned JSON document in place
Mutate(i) ==
    /\ i \in DOMAIN store
    /\ store[i].kind = "json" /\ store[i].val # "M"
    /\ store' = [store EXCEPT ![i] = Obj("json", "M")]
    /\ hist' = Append(hist, <<"Mutate", i>>)

Init == store = InitStore /\ hist = <<>>
Next == (\E op \in Ops, i \in DOMAIN store : Do(op, i)) \/ (\E i \in DOMAIN store : Mutate(i))
Spec == Init /\ [][Next]_vars

TypeOK == \A i \in DOMAIN store : store[i].kind \in {"code", "data", "json", "text"}

=============================================================================
