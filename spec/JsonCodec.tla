------------------------------ MODULE JsonCodec ------------------------------
(***************************************************************************)
(* JSON documents as tagged trees, and the two predicates C07 states on    *)
(* them.  The harness tags every node of a REAL document with what it      *)
(* really is in Python:                                                    *)
(*   <<"o", seq of <<key, tree>>>>  dict with str keys                     *)
(*   <<"a", seq of trees>>          list                                   *)
(*   <<"s", text>>  <<"i", decimal text>>  <<"f", repr>>  <<"b", bool>>    *)
(*   <<"n">>                                                               *)
(*   <<"x", python type name>>      anything that is not JSON (tuple,      *)
(*                                  bytes, set, dataclass, non-str key...) *)
(* Plain(t): only dict/list/str/int/float/bool/None, no NaN/Infinity, no   *)
(* integer beyond +-2^53.                                                  *)
(* Valid(S, s, t): t validates against schema s (a tagged tree itself; S   *)
(* is the root schema, for "$ref").  This is the subset of JSON Schema the  *)
(* published code_data.JSON_SCHEMA uses (type, properties, required,       *)
(* items, anyOf, enum, $ref) plus additionalProperties, allOf, oneOf, not,  *)
(* const; the harness passes the REAL schema in and    *)
(* compares every verdict with the `jsonschema` package (ENV.schema).      *)
(***************************************************************************)
EXTENDS Integers, Sequences, SequencesExt, FiniteSets, TLC

Tag(t) == t[1]

RECURSIVE Plain(_)
Plain(t) ==
    CASE Tag(t) = "o" -> \A i \in DOMAIN t[2] : Plain(t[2][i][2])
      [] Tag(t) = "a" -> \A i \in DOMAIN t[2] : Plain(t[2][i])
      [] Tag(t) = "f" -> t[2] \notin {"nan", "inf", "-inf"}
      [] Tag(t) = "i" -> t[3]                 \* the harness marks |n| < 2**53 (TLC integers are 32 bit)
      [] Tag(t) \in {"s", "b", "n"} -> TRUE
      [] OTHER -> FALSE

Get(o, k) == LET S == {i \in DOMAIN o[2] : o[2][i][1] = k} IN IF S = {} THEN <<"absent">> ELSE o[2][CHOOSE i \in S : TRUE][2]
Has(o, k) == \E i \in DOMAIN o[2] : o[2][i][1] = k

TypeOK(ty, t) ==
    CASE ty = "object" -> Tag(t) = "o"
      [] ty = "array" -> Tag(t) = "a"
      [] ty = "string" -> Tag(t) = "s"
      [] ty = "integer" -> Tag(t) = "i"
      [] ty = "number" -> Tag(t) \in {"i", "f"}
      [] ty = "boolean" -> Tag(t) = "b"
      [] ty = "null" -> Tag(t) = "n"
      [] OTHER -> FALSE

\* the harness strips "#/definitions/" from every $ref, so a reference is the definition's name
RefName(r) == r

RECURSIVE Valid(_, _, _)
Valid(S, s, t) ==
    /\ Has(s, "$ref") => Valid(S, Get(Get(S, "definitions"), RefName(Get(s, "$ref")[2])), t)
    /\ Has(s, "type") => TypeOK(Get(s, "type")[2], t)
    /\ Has(s, "enum") => \E i \in DOMAIN Get(s, "enum")[2] : Get(s, "enum")[2][i] = t
    /\ Has(s, "anyOf") => \E i \in DOMAIN Get(s, "anyOf")[2] : Valid(S, Get(s, "anyOf")[2][i], t)
    /\ (Has(s, "required") /\ Tag(t) = "o") =>
            \A i \in DOMAIN Get(s, "required")[2] : Has(t, Get(s, "required")[2][i][2])
    /\ (Has(s, "properties") /\ Tag(t) = "o") =>
            \A i \in DOMAIN t[2] :
                Has(Get(s, "properties"), t[2][i][1]) => Valid(S, Get(Get(s, "properties"), t[2][i][1]), t[2][i][2])
    /\ (Has(s, "items") /\ Tag(t) = "a") => \A i \in DOMAIN t[2] : Valid(S, Get(s, "items"), t[2][i])
    /\ (Has(s, "additionalProperties") /\ Tag(t) = "o") =>
            LET ap == Get(s, "additionalProperties")
                listed(k) == IF Has(s, "properties") THEN Has(Get(s, "properties"), k) ELSE FALSE
            IN \A i \in DOMAIN t[2] :
                   ~listed(t[2][i][1]) => (IF Tag(ap) = "b" THEN ap[2] ELSE Valid(S, ap, t[2][i][2]))
    /\ Has(s, "allOf") => \A i \in DOMAIN Get(s, "allOf")[2] : Valid(S, Get(s, "allOf")[2][i], t)
    /\ Has(s, "oneOf") => Cardinality({i \in DOMAIN Get(s, "oneOf")[2] : Valid(S, Get(s, "oneOf")[2][i], t)}) = 1
    /\ Has(s, "not") => ~Valid(S, Get(s, "not"), t)
    /\ Has(s, "const") => Get(s, "const") = t

\* ---------------------------------------------------------------- comparison up to set order
\* the element list of a {"frozenset": [...]} node is unordered
RECURSIVE CanonTree(_)
CanonTree(t) ==
    CASE Tag(t) = "o" ->
            IF Len(t[2]) = 1 /\ t[2][1][1] = "frozenset" /\ Tag(t[2][1][2]) = "a"
            THEN <<"fs", {CanonTree(t[2][1][2][2][i]) : i \in DOMAIN t[2][1][2][2]}>>
            ELSE <<"o", [i \in DOMAIN t[2] |-> <<t[2][i][1], CanonTree(t[2][i][2])>>]>>
      [] Tag(t) = "a" -> <<"a", [i \in DOMAIN t[2] |-> CanonTree(t[2][i])]>>
      [] OTHER -> t

=============================================================================
