------------------------------ MODULE Trace_Json ------------------------------
(***************************************************************************)
(* Trace validation for C07.  The first event of a file is the PUBLISHED   *)
(* schema (code_data.JSON_SCHEMA) as a tagged tree; every other event is   *)
(* one CodeData pushed through the real codec: to_json_data (document as   *)
(* a tagged tree, every node typed as it really is), strict json.dumps /   *)
(* json.loads, from_json_data, equality, hash, to_code; for constants of   *)
(* the bounded model also the constant's own JSON with atom names.         *)
(***************************************************************************)
EXTENDS Integers, Sequences, SequencesExt, FiniteSets, TLC, TLCExt, Json, IOUtils

J == INSTANCE JsonCodec
C == INSTANCE CPyConst
D == INSTANCE JsonDoc

Tr == ndJsonDeserialize(IOEnv.TRACE_FILE)
Schema == Tr[1].tree

VARIABLES l
vars == <<l>>

\* a term printed by MC_Json comes back with its sets as sequences
RECURSIVE TermOf(_)
TermOf(t) ==
    CASE t[1] = "tuple" -> <<"tuple", [i \in DOMAIN t[2] |-> TermOf(t[2][i])]>>
      [] t[1] = "frozenset" -> <<"frozenset", {TermOf(t[2][i]) : i \in DOMAIN t[2]}>>
      [] OTHER -> t

Clauses(e) ==
    LET valid == J!Valid(Schema, Schema, e.tree)
        okrun == e.to_exc = "" /\ e.dumps_exc = "" /\ e.from_exc = "" /\ e.code_exc = ""
    IN IF e.broken
       THEN << <<"ENV.schema", e.js_ran => (e.js_ok = valid)>> >>
       ELSE <<
        <<"ENV.schema", e.js_ran => (e.js_ok = valid)>>,
        \* (a hand-built shape of MC_Doc counts for C07 only if decoding can produce it: e.decodable)
        <<"P07.noraise", e.decodable => okrun>>,
        <<"P07.plain", (e.decodable /\ e.to_exc = "") => J!Plain(e.tree)>>,
        <<"P07.schema", (e.decodable /\ e.to_exc = "") => (valid /\ (e.js_ran => e.js_ok))>>,
        <<"P07.equal", (e.decodable /\ okrun) => (e.eq /\ e.hash)>>,
        <<"P07.code", (e.decodable /\ okrun) => e.code>>,
        \* any data, decodable or not: the codec neither raises nor loses anything on the shapes of MC_Doc
        <<"S07.shape", e.has_abs => (okrun /\ e.eq /\ e.hash /\ e.code /\ J!Plain(e.tree) /\ valid)>>,
        \* C12 on the JSON codec: arguments untouched, repeatable, no aliasing with returned documents
        <<"P12.json_pure", okrun => (e.pure_to /\ e.pure_from)>>,
        <<"P12.json_repeat", okrun => e.repeat_eq>>,
        <<"P12.json_alias", okrun => ~e.alias>>,
        \* the whole document is the documented form (binding of JsonDoc!DocOf)
        <<"M.doc", (e.has_abs /\ e.to_exc = "") => e.dtree = D!DocOf(e.abs)>>,
        \* the constant's JSON is the documented form (binding of CPyConst!ToJson)
        <<"M.tojson", (e.has_term /\ e.to_exc = "" /\ ~e.absent /\ e.pos \in {"operand", "additional", "nested"}) =>
              J!CanonTree(e.ctree) = J!CanonTree(C!ToJson(TermOf(e.term)))>>
       >>

\* C12, history independence: from_json_data on a document written by ANOTHER process gives the same outcome (same
\* data or same exception type) as the first thing a fresh process does and after that process has pushed every
\* term and shape through to_json_data / from_json_data / to_code (no hidden process-wide state)
ColdWarm(e) == << <<"P12.history_independent", e.first = e.later>> >>

Failing(e) ==
    LET cs == IF e.kind = "coldwarm" THEN ColdWarm(e) ELSE Clauses(e)
    IN SelectSeq([i \in DOMAIN cs |-> IF cs[i][2] THEN "" ELSE cs[i][1]], LAMBDA x: x # "")

Init == l = 2
Step == l <= Len(Tr) /\ l' = l + 1
Spec == Init /\ [][Step]_vars

EventChecked ==
    (l > 2) => LET bad == Failing(Tr[l - 1]) IN
        (bad # <<>>) => PrintT("@@" \o ToJson([id |-> Tr[l - 1].id, bad |-> bad]) \o "@@")

TraceAccepted == TLCGet("stats").diameter = Len(Tr)
=============================================================================
