------------------------------- MODULE Trace_Api -------------------------------
(***************************************************************************)
(* Trace validation for the API history machine.  One event = one history  *)
(* of Api.tla replayed on real objects (a compiled code object and a       *)
(* layout variant of it): after every step the harness records which       *)
(* earlier objects the new object equals (strict comparison per kind),     *)
(* hash mismatches among equal data, and which stored objects changed.     *)
(* The trace specification re-runs Api's actions on the abstract store and *)
(* requires                                                                *)
(*   P12.noraise  no call raised                                           *)
(*   P12.pure     no stored object changed (arguments included; mutated    *)
(*                documents count from their mutation)                     *)
(*   P08.hash     equal data have equal hashes, all data are hashable      *)
(*   P06.stable / P07.roundtrip / P01.api                                  *)
(*                the new object equals every earlier object that the      *)
(*                value algebra gives the same kind and value              *)
(***************************************************************************)
EXTENDS Integers, Sequences, SequencesExt, FiniteSets, TLC, TLCExt, Json, IOUtils

A == INSTANCE Api WITH store <- <<>>, hist <- <<>>

Tr == ndJsonDeserialize(IOEnv.TRACE_FILE)

VARIABLES l
vars == <<l>>

\* name of the clause an equality obligation belongs to
EqClause(op, o) ==
    IF o.val = "N" \/ (o.kind = "code" /\ o.val = "LC") \/ o.val = "DC" THEN "P06.stable"
    ELSE IF op \in {"ToJson", "Dumps", "Loads", "FromJson"} THEN "P07.roundtrip"
    ELSE "P01.api"

\* fold the recorded steps over the abstract store; acc = [store, bad]
StepCheck(acc, st) ==
    LET store == acc.store
        i == st.arg
        isMut == st.op = "Mutate"
        res == IF isMut THEN A!Obj("json", "M") ELSE A!Apply(st.op, store[i])
        store1 == IF isMut THEN [store EXCEPT ![i] = res] ELSE Append(store, res)
        same == {j \in DOMAIN store : store[j].kind = res.kind /\ store[j].val = res.val}
        missing == same \ ToSet(st.eq)
        bad == (IF st.raised # "" THEN <<"P12.noraise">> ELSE <<>>)
               \o (IF st.changed # <<>> THEN <<"P12.pure">> ELSE <<>>)
               \o (IF st.hash_bad # <<>> THEN <<"P08.hash">> ELSE <<>>)
               \o (IF ~isMut /\ st.raised = "" /\ missing # {} THEN <<EqClause(st.op, res)>> ELSE <<>>)
    IN [store |-> IF st.raised = "" THEN store1 ELSE store, bad |-> acc.bad \o bad]

\* kind "variants": layout variants of one compiled code object (table permutations with renumbered
\* operands, unreferenced entries, redundant EXTENDED_ARG prefixes, CO_NESTED; built by an independent
\* assembler and self-checked through dis) must normalise to equal, hash-equal data that encodes
\* to the identical code object (C06)
VariantsBad(e) ==
    (IF e.base_exc # "" THEN <<"P06.variants.base">> ELSE <<>>)
    \o (IF \E i \in DOMAIN e.eq : ~e.eq[i] THEN <<"P06.variants.eq">> ELSE <<>>)
    \o (IF \E i \in DOMAIN e.hash : ~e.hash[i] THEN <<"P06.variants.hash">> ELSE <<>>)
    \o (IF \E i \in DOMAIN e.code : ~e.code[i] THEN <<"P06.variants.code">> ELSE <<>>)

HasKind(e) == "kind" \in DOMAIN e

Failing(e) ==
    IF HasKind(e) /\ e.kind = "variants" THEN VariantsBad(e)
    ELSE FoldLeft(StepCheck, [store |-> A!InitStore, bad |-> <<>>], e.steps).bad

Init == l = 1
Step == l <= Len(Tr) /\ l' = l + 1
Spec == Init /\ [][Step]_vars

EventChecked ==
    (l > 1) => LET bad == Failing(Tr[l - 1]) IN
        (bad # <<>>) => PrintT("@@" \o ToJson([id |-> Tr[l - 1].id, bad |-> bad]) \o "@@")

TraceAccepted == TLCGet("stats").diameter - 1 = Len(Tr)
=============================================================================
