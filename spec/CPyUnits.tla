------------------------------ MODULE CPyUnits ------------------------------
(***************************************************************************)
(* Environment model: CPython's word code and the way its disassembler     *)
(* reads it.  A code unit is <<class, opname, byte>>; the class is taken   *)
(* from the interpreter's own dis.has* tables by the harness:              *)
(*   EXT | JABS | JREL | NAME | LOCAL | FREE | CONST | NOARG | RAW         *)
(* All offsets are byte offsets (2 per unit), as in dis.                   *)
(*                                                                         *)
(* Operands >= 2^31 (bpo-46724: four-unit instructions whose folded value  *)
(* wraps negative) are outside this model: TLC integers are 32 bit and the *)
(* interpreters' dis and ceval disagree about them; the harness keeps such *)
(* code objects out of TLC and counts them.                                *)
(***************************************************************************)
EXTENDS Integers, Sequences, SequencesExt, FiniteSets

\* EXTENDED_ARG folding, one unit at a time.  s = [ext, n, out]; k = 1-based unit index.
ReadInit == [ext |-> 0, n |-> 0, out |-> <<>>]

ReadUnit(s, u, k) ==
    LET arg == s.ext + u[3] IN
    IF u[1] = "EXT"
    THEN [s EXCEPT !.ext = arg * 256, !.n = s.n + 1]
    ELSE [ext |-> 0, n |-> 0,
          out |-> Append(s.out, [off |-> 2 * (k - 1 - s.n),     \* first unit, prefixes included
                                 opoff |-> 2 * (k - 1),          \* the unit dis shows
                                 op |-> u[2], cls |-> u[1], arg |-> arg, n |-> s.n + 1])]

Instructions(units) ==
    FoldLeft(LAMBDA s, k: ReadUnit(s, units[k], k), ReadInit, [k \in 1..Len(units) |-> k]).out

IsJump(i) == i.cls \in {"JABS", "JREL"}

\* byte offset a jump instruction transfers control to
JumpTarget(i, scale) ==
    IF i.cls = "JABS" THEN scale * i.arg ELSE i.opoff + 2 + scale * i.arg

\* value token an instruction's operand designates (-1: no table operand)
At(seq, idx) == IF idx + 1 \in DOMAIN seq THEN seq[idx + 1] ELSE -3

Operand(i, c) ==
    CASE i.cls = "NAME" -> At(c.names, i.arg)
      [] i.cls = "LOCAL" -> At(c.varnames, i.arg)
      [] i.cls = "FREE" -> At(c.cellvars \o c.freevars, i.arg)
      [] i.cls = "CONST" -> At(c.consts, i.arg)
      [] OTHER -> -1

\* the listing dis.get_instructions gives with EXTENDED_ARG lines removed:
\* <<offset, opname, arg (-1 for opcodes below HAVE_ARGUMENT), operand token, jump target>>
DisRead(c, scale) ==
    LET ins == Instructions(c.units) IN
    [j \in DOMAIN ins |->
        LET i == ins[j] IN
        <<i.opoff, i.op, IF i.cls = "NOARG" THEN -1 ELSE i.arg, Operand(i, c),
          IF IsJump(i) THEN JumpTarget(i, scale) ELSE -1>>]

=============================================================================
