------------------------------- MODULE MC_Flags -------------------------------
(***************************************************************************)
(* Bounded model for C11.                                                  *)
(*  (1) flag words: every subset of the flags CPython defines (2^18), every *)
(*      single unknown bit, and small known subsets joined with an unknown  *)
(*      bit: to_flags_data / from_flags_data are lossless on the first and  *)
(*      must raise on the others.                                          *)
(*  (2) headers: base headers of the scopes the compilers produce, altered  *)
(*      by hand (flag bits flipped, an unknown bit added, argument counts   *)
(*      changed): the reference decoder either raises or the reference      *)
(*      encoder reproduces flags and counts exactly.                       *)
(* A flag word is a set of bit indices (bit 31 does not fit a TLC integer). *)
(***************************************************************************)
EXTENDS Integers, Sequences, SequencesExt, FiniteSets, TLC, Json

CONSTANTS Ver, Mode,       \* Mode: "words" | "headers"
          WordBits,        \* "all" | "compiler"   (which known bits the word enumeration ranges over)
          Emit

V == INSTANCE Versions
D == INSTANCE Decode
E == INSTANCE EncodeHeader

Known == V!KnownBits(Ver)
Unknown == (0..31) \ Known
CompilerBits == 0..9

VARIABLES w, hdr
vars == <<w, hdr>>

\* ---------------------------------------------------------------- (1) words
\* "all": every subset of the defined bits; "compiler": every subset of the ten compiler flags;
\* "mixed" (for 3.7, whose enum module makes from_flags_data quadratic in the number of distinct
\* words seen): compiler subsets, __future__ subsets, and every known subset of size <= 3
WordSpace ==
    (CASE WordBits = "all" -> SUBSET Known
       [] WordBits = "compiler" -> SUBSET CompilerBits
       [] OTHER -> (SUBSET CompilerBits) \cup (SUBSET (Known \ CompilerBits))
                   \cup {T \in SUBSET Known : Cardinality(T) <= 3})
    \cup {{u} : u \in Unknown}
    \cup {S \cup {u} : S \in {T \in SUBSET Known : Cardinality(T) <= 1}, u \in Unknown}

\* the reference conversion: names of the set bits; a bit without a name raises
ToFlags(bits) == [raises |-> D!UnknownBits(Ver, bits) # {}, names |-> D!ToFlagsData(Ver, bits)]

WordOK ==
    /\ (w \subseteq Known) => (~ToFlags(w).raises /\ E!FromFlagsData(Ver, ToFlags(w).names) = w)
    /\ (~(w \subseteq Known)) => ToFlags(w).raises

\* ---------------------------------------------------------------- (2) headers
\* base headers: [argcount, posonly, kwonly, flags, nvar (len(co_varnames)), free (has free/cell vars)]
Bases ==
    { [name |-> "module", argcount |-> 0, posonly |-> 0, kwonly |-> 0, flags |-> {6}, nvar |-> 0, free |-> FALSE],
      [name |-> "class", argcount |-> 0, posonly |-> 0, kwonly |-> 0, flags |-> {}, nvar |-> 0, free |-> TRUE],
      [name |-> "def0", argcount |-> 0, posonly |-> 0, kwonly |-> 0, flags |-> {0, 1, 6}, nvar |-> 2, free |-> FALSE],
      [name |-> "def_a_va_k_vk", argcount |-> 1, posonly |-> 0, kwonly |-> 1, flags |-> {0, 1, 2, 3, 6}, nvar |-> 5, free |-> FALSE],
      [name |-> "def_po", argcount |-> 2, posonly |-> 1, kwonly |-> 0, flags |-> {0, 1, 6}, nvar |-> 3, free |-> FALSE],
      [name |-> "gen", argcount |-> 1, posonly |-> 0, kwonly |-> 0, flags |-> {0, 1, 5, 6}, nvar |-> 1, free |-> FALSE],
      [name |-> "coro", argcount |-> 0, posonly |-> 0, kwonly |-> 0, flags |-> {0, 1, 7, 6}, nvar |-> 1, free |-> FALSE],
      [name |-> "asyncgen", argcount |-> 0, posonly |-> 0, kwonly |-> 0, flags |-> {0, 1, 9, 6}, nvar |-> 1, free |-> FALSE],
      [name |-> "closure", argcount |-> 1, posonly |-> 0, kwonly |-> 0, flags |-> {0, 1, 4}, nvar |-> 1, free |-> TRUE] }

\* bits whose meaning the data model uses
UsedBits == {0, 1, 2, 3, 4, 5, 7, 8, 9, V!FlagBit(Ver, "annotations"), V!FlagBit(Ver, "generator_stop")}

Alterations ==
    [flip : {S \in SUBSET UsedBits : Cardinality(S) <= 2},
     unk : {-1} \cup {11, 30},
     dArg : {-1, 0, 1}, dPos : {0, 1}, dKw : {-1, 0, 1}]

Altered(b, a) ==
    [b EXCEPT !.flags = ((b.flags \ a.flip) \cup (a.flip \ b.flags)) \cup (IF a.unk = -1 THEN {} ELSE {a.unk}),
              !.argcount = b.argcount + a.dArg,
              !.posonly = b.posonly + a.dPos,
              !.kwonly = b.kwonly + a.dKw]

\* what CPython's CodeType constructor accepts (3.7-3.10): non-negative counts, posonly <= argcount,
\* and room in co_varnames for every declared parameter; it recomputes CO_NOFREE itself
CtorAccepts(h) ==
    /\ h.argcount >= 0 /\ h.posonly >= 0 /\ h.kwonly >= 0
    /\ h.posonly <= h.argcount
    /\ (Ver = "37") => h.posonly = 0
    /\ h.argcount + h.kwonly + (IF 2 \in h.flags THEN 1 ELSE 0) + (IF 3 \in h.flags THEN 1 ELSE 0) <= h.nvar

Normalised(h) == [h EXCEPT !.flags = IF h.free THEN h.flags \ {6} ELSE h.flags \cup {6}]

AbstractCode(h) ==
    [argcount |-> h.argcount, posonly |-> h.posonly, kwonly |-> h.kwonly,
     varnames |-> [i \in 1..h.nvar |-> 700 + i], flags |-> h.flags,
     freevars |-> IF h.free THEN <<800>> ELSE <<>>, cellvars |-> <<>>,
     consts |-> <<900>>, const_is_str |-> <<FALSE>>]

HeaderOK ==
    LET h == Normalised(hdr)
        c == AbstractCode(h)
        d == D!DecodeHeader(c, Ver)
        e == E!EncodeHeader(d, Ver, ~h.free)
    IN CtorAccepts(hdr) =>
         (d.exc # "" \/ e.exc # ""
          \/ (e.flags = h.flags /\ e.argcount = h.argcount /\ e.posonly = h.posonly /\ e.kwonly = h.kwonly
              /\ e.params = SubSeq(c.varnames, 1, Len(e.params))))

Init ==
    IF Mode = "words"
    THEN w \in WordSpace /\ hdr = <<>>
    ELSE w = {} /\ hdr \in {Altered(b, a) : b \in Bases, a \in Alterations}

Next == UNCHANGED vars
Spec == Init /\ [][Next]_vars

C11Model ==
    IF Mode = "words"
    THEN /\ Emit => PrintT("@@" \o ToJson(SetToSortSeq(w, <)) \o "@@")
         /\ WordOK
    ELSE /\ (Emit /\ CtorAccepts(hdr)) =>
                PrintT("@@" \o ToJson([base |-> hdr.name, flags |-> SetToSortSeq(hdr.flags, <), argcount |-> hdr.argcount,
                                       posonly |-> hdr.posonly, kwonly |-> hdr.kwonly,
                                       raises |-> D!DecodeHeader(AbstractCode(Normalised(hdr)), Ver).exc # ""]) \o "@@")
         /\ HeaderOK
=============================================================================
