------------------------------ MODULE MC_System ------------------------------
(***************************************************************************)
(* The composed system: the API history machine (Api.tla) run on VALUES.   *)
(* Every object of the store carries, next to its abstract tag, the value   *)
(* the reference model computes for it: an abstract code object (word code  *)
(* + tables + header) or a projected CodeData, obtained with Decode.tla,    *)
(* Encode.tla and Normalize.tla.  JSON objects carry the data they encode   *)
(* (the JSON codec has its own model, MC_Json).                            *)
(*                                                                         *)
(* TLC checks, over every history up to MaxLen from every pair of a base    *)
(* stream and a layout variant of it:                                      *)
(*   Refines     the value-level machine implements Api.tla (same tags)     *)
(*   TagsDecide  two objects with the same kind and tag have EQUAL VALUES   *)
(*               - this is what Trace_Api demands of the real library, so   *)
(*               the algebra is sound for the reference model: normalised   *)
(*               data are equal along every route (C06), ToCode(FromCode c) *)
(*               is c (C01), and so on                                      *)
(*   NoRaise     no reference operation raises on these histories          *)
(***************************************************************************)
EXTENDS Integers, Sequences, SequencesExt, FiniteSets, TLC

CONSTANTS Ver, MaxLen

D == INSTANCE Decode
EN == INSTANCE Encode
NZ == INSTANCE Normalize
V == INSTANCE Versions
A == INSTANCE Api WITH store <- <<>>, hist <- <<>>

VARIABLES objs, n
vars == <<objs, n>>

\* ---------------------------------------------------------------- abstract code objects
Tables(perm) ==
    \* perm = TRUE: names and constants in another order (operands are renumbered in the streams below)
    [names |-> IF perm THEN <<12, 10, 11>> ELSE <<10, 11, 12>>,
     varnames |-> <<20, 21>>, cellvars |-> <<30>>, freevars |-> <<40>>,
     consts |-> IF perm THEN <<50, 52, 51>> ELSE <<50, 51, 52>>,
     name_keys |-> IF perm THEN <<112, 110, 111>> ELSE <<110, 111, 112>>,
     varname_keys |-> <<120, 121>>, cellvar_keys |-> <<130>>,
     const_keys |-> IF perm THEN <<150, 152, 151>> ELSE <<150, 151, 152>>, none_key |-> 150,
     const_is_str |-> IF perm THEN <<FALSE, FALSE, TRUE>> ELSE <<FALSE, TRUE, FALSE>>,
     const_is_code |-> <<FALSE, FALSE, FALSE>>,
     first |-> 1, argcount |-> 0, posonly |-> 0, kwonly |-> 0, flags |-> {},
     name |-> 60, filename |-> 61, stacksize |-> 10, expected_all |-> 1, table |-> <<>>]

U(cls, b) == <<cls, IF cls = "EXT" THEN "EXTENDED_ARG" ELSE cls, b>>

\* base programs: <<stream in the plain layout, the same program in the permuted layout (with a
\* redundant EXTENDED_ARG in front of the jump)>>
Programs ==
    { <<<<U("NAME", 1), U("CONST", 2), U("JABS", 0)>>,
        <<U("NAME", 2), U("CONST", 1), U("EXT", 0), U("JABS", 0)>>>>,
      <<<<U("CONST", 1), U("NAME", 0), U("NAME", 2), U("NOARG", 0)>>,
        <<U("CONST", 2), U("NAME", 1), U("NAME", 0), U("NOARG", 7)>>>>,
      <<<<U("JREL", 2), U("LOCAL", 1), U("FREE", 1), U("NAME", 0)>>,
        <<U("JREL", 2), U("LOCAL", 1), U("FREE", 1), U("NAME", 1)>>>> }

CodeOf(units, perm) == Tables(perm) @@ [units |-> units]

KM == [t \in {10, 11, 12, 20, 21, 30, 40, 50, 51, 52} |-> <<t + 100, t + 100>>]

\* ---------------------------------------------------------------- reference operations on values
Lines1(c) == [k \in 1..Len(c.units) |-> 1]

\* Decode needs a line mapping covering the code: every unit on the first line
DecodeV(c) ==
    LET h == D!DecodeHeader(c, Ver)
        ncode == Len(c.units)
        lm == [lines |-> [k \in 1..ncode |-> 0], addl |-> [k \in 1..ncode |-> <<>>]]
        s == FoldLeft(LAMBDA st, k: D!DecodeUnit(st, c.units[k], k, c, h, lm, V!JumpScale(Ver)),
                      D!DecodeInit(c, h), [k \in 1..ncode |-> k])
        f == D!DecodeFinish(s, c, lm, ncode)
    IN [exc |-> IF h.exc # "" THEN h.exc ELSE f.exc,
        d |-> [instrs |-> f.instrs, block_starts |-> f.block_starts, additional |-> f.additional, addline |-> <<>>,
               is_fn |-> FALSE, args |-> [po |-> <<>>, pk |-> <<>>, va |-> <<>>, ko |-> <<>>, vk |-> <<>>],
               doc |-> <<>>, fn_type |-> "", annotations |-> FALSE, nested |-> FALSE,
               freevars |-> c.freevars, first |-> 1, name |-> 60, filename |-> 61, stacksize |-> 10]]

ClsOf(op) == IF op = "EXTENDED_ARG" THEN "EXT" ELSE op
EncodeV(d) ==
    LET e == EN!Encode(d, Ver, KM, {51}, 50, 20) IN
    [exc |-> e.exc,
     c |-> IF e.exc # "" THEN <<>> ELSE
           [Tables(FALSE) EXCEPT !.names = e.names, !.varnames = e.varnames, !.cellvars = e.cellvars,
                                 !.consts = e.consts, !.freevars = e.freevars, !.flags = e.flags,
                                 !.name_keys = [i \in DOMAIN e.names |-> e.names[i] + 100],
                                 !.const_keys = [i \in DOMAIN e.consts |-> e.consts[i] + 100],
                                 !.const_is_str = [i \in DOMAIN e.consts |-> e.consts[i] = 51]]
           @@ [units |-> [k \in DOMAIN e.units |-> <<ClsOf(e.units[k][1]), e.units[k][1], e.units[k][2]>>]]]

\* the value an Api operation yields on a value (val = <<"ok"|"exc", payload>>)
ApplyV(op, o) ==
    CASE op = "FromCode" -> LET r == DecodeV(o.val) IN [exc |-> r.exc, val |-> r.d]
      [] op = "ToCode" -> LET r == EncodeV(o.val) IN [exc |-> r.exc, val |-> r.c]
      [] op = "Normalize" -> [exc |-> "", val |-> NZ!Normalize(o.val)]
      [] OTHER -> [exc |-> "", val |-> o.val]        \* ToJson, Dumps, Loads, FromJson carry the data along

Init ==
    \E p \in Programs :
        /\ objs = <<[kind |-> "code", tag |-> "L0", val |-> CodeOf(p[1], FALSE), exc |-> ""],
                    [kind |-> "code", tag |-> "L1", val |-> CodeOf(p[2], TRUE), exc |-> ""]>>
        /\ n = 0

Do(op, i) ==
    /\ n < MaxLen
    /\ i \in DOMAIN objs
    /\ LET o == objs[i]
           t == A!Apply(op, [kind |-> o.kind, val |-> o.tag])
       IN /\ t.kind # "none"
          /\ LET r == ApplyV(op, o)
             IN objs' = Append(objs, [kind |-> t.kind, tag |-> t.val, val |-> r.val, exc |-> r.exc])
    /\ n' = n + 1

Next == \E op \in A!Ops, i \in DOMAIN objs : Do(op, i)
Spec == Init /\ [][Next]_vars

----------------------------------------------------------------------------
NoRaise == \A i \in DOMAIN objs : objs[i].exc = ""

\* compare what equality of the real objects compares: for code the word code, tables and header;
\* for data the projected fields
Same(a, b) == a.val = b.val

TagsDecide ==
    \A i, j \in DOMAIN objs :
        (objs[i].kind = objs[j].kind /\ objs[i].tag = objs[j].tag /\ objs[i].exc = "" /\ objs[j].exc = "")
            => Same(objs[i], objs[j])
=============================================================================
