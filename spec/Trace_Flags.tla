------------------------------ MODULE Trace_Flags ------------------------------
(***************************************************************************)
(* Trace validation for C11.  Events:                                      *)
(*  kind "word":   a flag word (set of bit indices) through the real        *)
(*                 to_flags_data / from_flags_data of one interpreter,      *)
(*                 with that interpreter's own flag table;                  *)
(*  kind "header": a base code object whose flags / argument counts were    *)
(*                 altered by hand, through CodeType(...), from_code and    *)
(*                 to_code, with the header fields that did not come back.  *)
(***************************************************************************)
EXTENDS Integers, Sequences, SequencesExt, FiniteSets, TLC, TLCExt, Json, IOUtils

V == INSTANCE Versions
D == INSTANCE Decode

Tr == ndJsonDeserialize(IOEnv.TRACE_FILE)

VARIABLES l
vars == <<l>>

WordClauses(e) ==
    LET bits == ToSet(e.bits)
        known == V!KnownBits(e.ver)
        names == ToSet(e.names)
    IN <<
        <<"P11.lossless", (bits \subseteq known) => (e.exc = "" /\ e.exc2 = "" /\ ToSet(e.back) = bits)>>,
        <<"P11.raise", (~(bits \subseteq known)) => e.exc # "">>,
        <<"M.names", e.exc = "" => names = D!ToFlagsData(e.ver, bits)>>,
        <<"M.raise", (e.exc # "") = (D!UnknownBits(e.ver, bits) # {})>>
       >>

\* what the CodeType constructor accepts (3.7-3.10); it recomputes CO_NOFREE itself
CtorAccepts(ver, w, nvar) ==
    /\ w.argcount >= 0 /\ w.posonly >= 0 /\ w.kwonly >= 0
    /\ w.posonly <= w.argcount
    /\ (ver = "37") => w.posonly = 0
    /\ w.argcount + w.kwonly + (IF 2 \in ToSet(w.flags) THEN 1 ELSE 0) + (IF 3 \in ToSet(w.flags) THEN 1 ELSE 0) <= nvar

HeaderClauses(e) ==
    LET want == e.want
        wf == ToSet(want.flags)
        norm == IF e.base_hdr.free THEN wf \ {6} ELSE wf \cup {6}
    IN <<
        <<"ENV.ctor", e.ctor_ok = CtorAccepts(e.ver, want, e.base_hdr.nvar)>>,
        <<"ENV.nofree", e.ctor_ok => (ToSet(e.got.flags) = norm /\ e.got.argcount = want.argcount
                                      /\ e.got.posonly = want.posonly /\ e.got.kwonly = want.kwonly)>>,
        \* C11: from_code raises, or to_code reproduces every header field
        <<"P11.header", e.ctor_ok => (e.from_exc # "" \/ (e.to_exc = "" /\ e.diff = <<>>))>>,
        <<"M.hraise", e.ctor_ok => ((e.from_exc # "") = e.model_raises)>>
       >>

\* the interpreter's own flag table (dis.COMPILER_FLAG_NAMES, __future__), once per trace file
TableClauses(e) ==
    << <<"ENV.table", {<<t[1], t[2]>> : t \in ToSet(e.table)}
                      = {<<n, V!FlagBit(e.ver, n)>> : n \in V!FlagNames(e.ver)}>> >>

Clauses(e) == CASE e.kind = "word" -> WordClauses(e)
                [] e.kind = "table" -> TableClauses(e)
                [] OTHER -> HeaderClauses(e)

Failing(e) ==
    LET cs == Clauses(e)
    IN SelectSeq([i \in DOMAIN cs |-> IF cs[i][2] THEN "" ELSE cs[i][1]], LAMBDA x: x # "")

Init == l = 1
Step == l <= Len(Tr) /\ l' = l + 1
Spec == Init /\ [][Step]_vars

EventChecked ==
    (l > 1) => LET bad == Failing(Tr[l - 1]) IN
        (bad # <<>>) => PrintT("@@" \o ToJson([id |-> Tr[l - 1].id, bad |-> bad]) \o "@@")

TraceAccepted == TLCGet("stats").diameter - 1 = Len(Tr)
=============================================================================
