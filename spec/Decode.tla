------------------------------- MODULE Decode -------------------------------
(***************************************************************************)
(* The library's decoder, action by action:                                *)
(*   code_data/_flags_data.py   to_flags_data                              *)
(*   code_data/_args.py         args_from_input                            *)
(*   code_data/_code_data.py    to_code_data (header part)                 *)
(*   code_data/_blocks.py       bytes_to_blocks, to_arg, ToArgs, _parse_bytes *)
(*   code_data/_line_mapping.py pop_additional_line                        *)
(*                                                                         *)
(* The abstract code object `c` is the record the harness logs (tables are *)
(* sequences of value tokens; equal token = bit- and type-exact equal      *)
(* value).  DecodeUnit is one iteration of the loop over code units; it is *)
(* an action of MC_Decode and the fold step of Decode(c), which trace      *)
(* validation compares with what the real library returned.                *)
(*                                                                         *)
(* Instructions are tuples                                                 *)
(*   <<name, kind, val, x, nargs_override, line, line_offsets_override>>   *)
(* kind: "J" (val = target, x = 1 iff relative), "N" "V" "K" "C" (val =    *)
(* token, x = _index_override or -1), "F" (token), "0" (NoArg, val = _arg),*)
(* "I" (int).  -1 stands for Python's None in the override positions.      *)
(***************************************************************************)
EXTENDS Integers, Sequences, SequencesExt, FiniteSets, TLC

L == INSTANCE Lines
V == INSTANCE Versions
U == INSTANCE CPyUnits

None == L!None
Absent == L!Absent

Min2(a, b) == IF a < b THEN a ELSE b
Max2(a, b) == IF a > b THEN a ELSE b

\* Python slicing s[:n] and s[n:] (n may be negative)
SliceTo(s, n) == IF n >= 0 THEN SubSeq(s, 1, Min2(n, Len(s))) ELSE SubSeq(s, 1, Max2(0, Len(s) + n))
SliceFrom(s, n) == IF n >= 0 THEN SubSeq(s, Min2(n, Len(s)) + 1, Len(s))
                   ELSE SubSeq(s, Max2(0, Len(s) + n) + 1, Len(s))

(***************************************************************************)
(* Header.                                                                 *)
(***************************************************************************)
\* to_flags_data: the names of the known flags that are set.  Bits without a name are
\* rejected (ValueError) since "fix:" commit 3; `unknown` carries them.
ToFlagsData(ver, bits) == {n \in V!FlagNames(ver) : V!FlagBit(ver, n) \in bits}
UnknownBits(ver, bits) == bits \ V!KnownBits(ver)

\* args_from_input
ArgsFromInput(c, flags) ==
    LET v0 == c.varnames
        po == SliceTo(v0, c.posonly)
        v1 == SliceFrom(v0, c.posonly)
        pkc == c.argcount - c.posonly
        pk == SliceTo(v1, pkc)
        v2 == SliceFrom(v1, pkc)
        hasva == "VARARGS" \in flags
        hasvk == "VARKEYWORDS" \in flags
        \* keyword-only names come before *args in co_varnames ("fix:" commit 4)
        ko == SliceTo(v2, c.kwonly)
        v3 == SliceFrom(v2, c.kwonly)
        va == IF hasva THEN SliceTo(v3, 1) ELSE <<>>
        v4 == IF hasva THEN SliceFrom(v3, 1) ELSE v3
        vk == IF hasvk THEN SliceTo(v4, 1) ELSE <<>>
    IN [po |-> po, pk |-> pk, va |-> va, ko |-> ko, vk |-> vk,
        exc |-> IF (hasva /\ Len(v3) = 0) \/ (hasvk /\ Len(v4) = 0) THEN "IndexError" ELSE "",
        flags |-> flags \ {"VARARGS", "VARKEYWORDS"}]

\* Args.parameters: an OrderedDict, so a repeated name keeps its first position
Dedup(s) == SelectSeq([i \in DOMAIN s |-> IF \E j \in 1..(i - 1) : s[j] = s[i] THEN -1 ELSE s[i]],
                      LAMBDA x: x # -1)
ParamNames(a) == Dedup(a.po \o a.pk \o a.va \o a.ko \o a.vk)
\* <<name, kind>> with inspect's kinds 0..4
ParamList(a) ==
    LET all == [i \in DOMAIN a.po |-> <<a.po[i], 0>>] \o [i \in DOMAIN a.pk |-> <<a.pk[i], 1>>]
               \o [i \in DOMAIN a.va |-> <<a.va[i], 2>>] \o [i \in DOMAIN a.ko |-> <<a.ko[i], 3>>]
               \o [i \in DOMAIN a.vk |-> <<a.vk[i], 4>>]
    IN all

FnTypeFlags == {"ASYNC_GENERATOR", "COROUTINE", "GENERATOR"}

\* to_code_data up to the call of bytes_to_blocks.  exc = "" or the exception class raised.
DecodeHeader(c, ver) ==
    LET fd0 == ToFlagsData(ver, c.flags)
        a == ArgsFromInput(c, fd0)
        fd1 == a.flags
        nofree == "NOFREE" \in fd1
        nofree_ok == nofree <=> (Len(c.freevars) = 0 /\ Len(c.cellvars) = 0)
        fd2 == fd1 \ {"NOFREE", "annotations", "NESTED"}
        fn == fd2 \cap {"NEWLOCALS", "OPTIMIZED"}
        nfn == Cardinality(fn)
        nparams == Len(ParamNames(a))
        tps == fd2 \cap FnTypeFlags
        rest == IF nfn = 2 THEN (fd2 \ {"NEWLOCALS", "OPTIMIZED"}) \ (IF Cardinality(tps) = 1 THEN tps ELSE {})
                ELSE fd2
        exc == IF UnknownBits(ver, c.flags) # {} THEN "ValueError"
               ELSE IF a.exc # "" THEN a.exc
               ELSE IF ~nofree_ok THEN "AssertionError"
               ELSE IF nfn = 0 /\ nparams # 0 THEN "AssertionError"
               ELSE IF nfn = 1 THEN "ValueError"
               ELSE IF nfn = 2 /\ Cardinality(tps) > 1 THEN "AssertionError"
               ELSE IF rest # {} THEN "ValueError"
               ELSE ""
    IN [exc |-> exc,
        is_fn |-> nfn = 2,
        args |-> [po |-> a.po, pk |-> a.pk, va |-> a.va, ko |-> a.ko, vk |-> a.vk],
        nparams |-> nparams,
        doc |-> IF nfn = 2 /\ Len(c.consts) > 0 /\ c.const_is_str[1] THEN <<c.consts[1]>> ELSE <<>>,
        fn_type |-> IF nfn = 2 /\ Cardinality(tps) = 1 THEN CHOOSE t \in tps : TRUE ELSE "",
        annotations |-> "annotations" \in fd1,
        nested |-> "NESTED" \in fd1]

(***************************************************************************)
(* ToArgs: first-use bookkeeping of one table.                             *)
(*   order  the Python dict _index_to_order (table index -> rank of first  *)
(*          use); decides which entries are "additional".                  *)
(*   i2k, k2i  what the encoder's FromArgs table will contain at this      *)
(*          point when it re-encodes the instructions decoded so far       *)
(*          (index -> key, key -> index).  An operand gets a position      *)
(*          override exactly when the encoder, left alone, would pick      *)
(*          another index ("fix:" commit for C09).                         *)
(* Keys are tokens of the encoder's notion of "same entry" (constant_key   *)
(* for constants, the string for names), logged by the harness.            *)
(***************************************************************************)
EmptyFn == [i \in {} |-> 0]
EmptyTA == [order |-> EmptyFn, i2k |-> EmptyFn, k2i |-> EmptyFn]

\* (k :> v) @@ f is evaluated eagerly; a [x \in ... |-> ...] constructor would stay lazy in TLC and
\* a chain of updates would be evaluated recursively (stack overflow on long code objects)
Put(f, k, v) == (k :> v) @@ f

\* entries the encoder seeds before it looks at any instruction
Seeded(keys, n) ==
    [order |-> [i \in 0..(n - 1) |-> i],
     i2k |-> [i \in 0..(n - 1) |-> keys[i + 1]],
     k2i |-> [k \in {keys[i + 1] : i \in 0..(n - 1)} |-> CHOOSE i \in 0..(n - 1) : keys[i + 1] = k]]

\* index FromArgs.add(value, None) would return
Expected(ta, key) ==
    IF key \in DOMAIN ta.k2i THEN ta.k2i[key] ELSE Cardinality(DOMAIN ta.i2k)

\* found_index(index) -> <<ta', override or -1>>
FoundIndex(ta, idx, key, force) ==
    LET ovr == IF force \/ Expected(ta, key) # idx THEN idx ELSE -1
        order1 == IF idx \in DOMAIN ta.order THEN ta.order
                  ELSE Put(ta.order, idx, Cardinality(DOMAIN ta.order))
    IN <<[order |-> order1, i2k |-> Put(ta.i2k, idx, key), k2i |-> Put(ta.k2i, key, idx)], ovr>>

(***************************************************************************)
(* bytes_to_blocks: state of the loop over code units.                     *)
(***************************************************************************)
DecodeInit(c, h) ==
    [ext |-> 0, n |-> 0, exc |-> "",
     out |-> <<>>,                     \* <<first byte offset, instruction>>
     targets |-> {0},
     on |-> EmptyTA,
     ov |-> Seeded(c.varname_keys, h.nparams),
     oc |-> EmptyTA,
     ok |-> IF h.is_fn /\ h.doc # <<>> THEN Seeded(c.const_keys, 1) ELSE EmptyTA]

InRange(seq, idx) == idx >= 0 /\ idx < Len(seq)

\* The encoder puts None in front of a function's constants when the function has no docstring
\* and the first constant it meets is a string without override (so that the string is not taken
\* for a docstring).  The decoder accounts for it: if slot 0 really holds None and the string sits
\* in slot 1 the encoder's table is simulated with the None, otherwise the string keeps its position
\* (an operand with an override never triggers the rule).
ConstUse(s, arg, c, h) ==
    LET key == c.const_keys[arg + 1]
        wouldPrepend == h.is_fn /\ h.doc = <<>> /\ DOMAIN s.ok.i2k = {} /\ c.const_is_str[arg + 1]
        \* the encoder will put the None in itself and then give this string slot 1
        slot0None == arg = 1 /\ c.const_keys[1] = c.none_key
        ta0 == IF wouldPrepend /\ slot0None
               THEN [s.ok EXCEPT !.i2k = Put(@, 0, c.none_key), !.k2i = Put(@, c.none_key, 0)]
               ELSE s.ok
    IN FoundIndex(ta0, arg, key, wouldPrepend /\ ~slot0None)

\* to_arg: <<kind, val, x, state'>>; an index outside its table raises IndexError
ToArg(s, u, arg, next, c, h, scale) ==
    LET cls == u[1] IN
    CASE cls = "JABS" -> <<"J", scale * arg, 0, s>>
      [] cls = "JREL" -> <<"J", next + scale * arg, 1, s>>
      [] cls = "NAME" ->
            IF ~InRange(c.names, arg) THEN <<"X", 0, 0, [s EXCEPT !.exc = "IndexError"]>>
            ELSE LET f == FoundIndex(s.on, arg, c.name_keys[arg + 1], FALSE)
                 IN <<"N", c.names[arg + 1], f[2], [s EXCEPT !.on = f[1]]>>
      [] cls = "LOCAL" ->
            IF ~InRange(c.varnames, arg) THEN <<"X", 0, 0, [s EXCEPT !.exc = "IndexError"]>>
            ELSE LET f == FoundIndex(s.ov, arg, c.varname_keys[arg + 1], FALSE)
                 IN <<"V", c.varnames[arg + 1], f[2], [s EXCEPT !.ov = f[1]]>>
      [] cls = "FREE" ->
            IF arg < Len(c.cellvars)
            THEN LET f == FoundIndex(s.oc, arg, c.cellvar_keys[arg + 1], FALSE)
                 IN <<"C", c.cellvars[arg + 1], f[2], [s EXCEPT !.oc = f[1]]>>
            ELSE IF ~InRange(c.freevars, arg - Len(c.cellvars))
                 THEN <<"X", 0, 0, [s EXCEPT !.exc = "IndexError"]>>
                 ELSE <<"F", c.freevars[arg - Len(c.cellvars) + 1], -1, s>>
      [] cls = "CONST" ->
            IF ~InRange(c.consts, arg) THEN <<"X", 0, 0, [s EXCEPT !.exc = "IndexError"]>>
            ELSE LET f == ConstUse(s, arg, c, h)
                 IN <<"K", c.consts[arg + 1], f[2], [s EXCEPT !.ok = f[1]]>>
      [] cls = "NOARG" -> <<"0", arg, -1, s>>
      [] OTHER -> <<"I", arg, -1, s>>

\* one code unit (k is its 1-based index); lm is the LineMapping of the code object
DecodeUnit(s, u, k, c, h, lm, scale) ==
    IF s.exc # "" THEN s ELSE
    LET arg == s.ext + u[3] IN
    IF u[1] = "EXT" THEN [s EXCEPT !.ext = arg * 256, !.n = s.n + 1]
    ELSE
    LET nunits == s.n + 1
        firstk == k - s.n                      \* 1-based unit index of the first prefix
        off == 2 * (firstk - 1)
        next == 2 * k
        ta == ToArg(s, u, arg, next, c, h, scale)
        s1 == ta[4]
        isjump == ta[1] = "J"
        novr == IF isjump /\ nunits > 1 THEN nunits ELSE -1
        haveline == firstk <= Len(lm.lines) /\ lm.lines[firstk] # Absent
        line == IF ~haveline THEN Absent
                ELSE IF lm.lines[firstk] = None THEN None ELSE lm.lines[firstk] + c.first
        lovr == IF haveline THEN lm.addl[firstk] ELSE <<>>
        ins == <<u[2], ta[1], ta[2], ta[3], novr, line, lovr>>
    IN IF s1.exc # "" THEN s1
       ELSE IF ~haveline THEN [s1 EXCEPT !.exc = "KeyError"]
       ELSE [s1 EXCEPT !.ext = 0, !.n = 0,
                       !.out = Append(s.out, <<off, ins>>),
                       !.targets = IF isjump THEN s.targets \cup {ta[2]} ELSE s.targets]

\* additional_args of one table: entries never referenced, in table order
Additional(kind, table, keys, ta) ==
    LET step(acc, i) ==
            IF i \in DOMAIN acc.ta.order THEN acc
            ELSE LET f == FoundIndex(acc.ta, i, keys[i + 1], FALSE)
                 IN [ta |-> f[1], out |-> Append(acc.out, <<kind, table[i + 1], f[2]>>)]
    IN FoldLeft(step, [ta |-> ta, out |-> <<>>], [j \in 1..Len(table) |-> j - 1]).out

\* the end of bytes_to_blocks and of to_code_data
DecodeFinish(s, c, lm, ncode) ==
    IF s.exc # "" THEN [exc |-> s.exc] ELSE
    LET tg == s.targets
        rank(t) == Cardinality({x \in tg : x < t})
        n == Len(s.out)
        instrs == [j \in 1..n |->
                     LET i == s.out[j][2] IN
                     IF i[2] = "J" THEN <<i[1], "J", rank(i[3]), i[4], i[5], i[6], i[7]>> ELSE i]
        starts == SelectSeq([j \in 1..n |-> IF s.out[j][1] \in tg THEN j - 1 ELSE -1], LAMBDA x: x # -1)
        additional == Additional("N", c.names, c.name_keys, s.on)
                      \o Additional("V", c.varnames, c.varname_keys, s.ov)
                      \o Additional("C", c.cellvars, c.cellvar_keys, s.oc)
                      \o Additional("K", c.consts, c.const_keys, s.ok)
        \* pop_additional_line: whatever is left in the mapping must sit exactly at len(co_code)
        K == Len(lm.lines)
        extra == K - ncode
        addline == IF extra = 1
                   THEN <<<<IF lm.lines[K] = None THEN None ELSE lm.lines[K] + c.first, lm.addl[K]>>>>
                   ELSE <<>>
    IN [exc |-> IF extra > 1 THEN "NotImplementedError" ELSE "",
        instrs |-> instrs, block_starts |-> starts, additional |-> additional, addline |-> addline]

\* the whole decoder as one function of the abstract code object
Decode(c, ver) ==
    LET h == DecodeHeader(c, ver)
        lt == V!UseLinetable(ver)
        ncode == Len(c.units)
        lm == L!ToLineMapping(c.table, 2 * ncode, lt)
        scale == V!JumpScale(ver)
        s == FoldLeft(LAMBDA st, k: DecodeUnit(st, c.units[k], k, c, h, lm, scale),
                      DecodeInit(c, h), [k \in 1..ncode |-> k])
        f == DecodeFinish(s, c, lm, ncode)
    IN IF h.exc # "" THEN [exc |-> h.exc, h |-> h]
       ELSE IF f.exc # "" THEN [exc |-> f.exc, h |-> h]
       ELSE [exc |-> "", h |-> h, instrs |-> f.instrs, block_starts |-> f.block_starts,
             additional |-> f.additional, addline |-> f.addline]

=============================================================================
