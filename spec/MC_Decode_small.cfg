SPECIFICATION Spec
CONSTANTS
  Ver = "38"
  MaxUnits = 4
  MaxPrefix = 1
  Classes = {"EXT", "JABS", "JREL", "NAME", "LOCAL", "FREE", "CONST", "NOARG", "RAW"}
  ByteVals = {0, 1, 2, 4}
  Emit = FALSE
INVARIANT DecodeModel
