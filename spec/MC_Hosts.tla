------------------------------- MODULE MC_Hosts -------------------------------
(***************************************************************************)
(* Bounded model for C15: a JSON document written under one interpreter    *)
(* (producer) is carried to another one (consumer) and taken through a     *)
(* sequence of host-side operations.  The value algebra of Api.tla,         *)
(* indexed by host: no operation mentions the host, so the final document   *)
(* must be the producer's document (raw, or normalised once Normalize has   *)
(* been applied).  Behaviours = (producer, consumer, operation sequence);   *)
(* complete ones are printed for replay on the real interpreters, 3.7-3.10  *)
(* as producers and 3.7-3.13 as consumers (3.11+ cannot build code objects  *)
(* of the older formats but can load, normalise and dump).                 *)
(***************************************************************************)
EXTENDS Integers, Sequences, FiniteSets, TLC, Json

CONSTANTS Producers, Consumers, MaxOps, Emit

VARIABLES prod, cons, form, norm, ops
vars == <<prod, cons, form, norm, ops>>

Init ==
    /\ prod \in Producers /\ cons \in Consumers
    /\ form = "doc" /\ norm = FALSE /\ ops = <<>>

Do(op) ==
    /\ Len(ops) < MaxOps
    /\ CASE op = "Load" -> form = "doc" /\ form' = "data" /\ norm' = norm
         [] op = "Normalize" -> form = "data" /\ form' = "data" /\ norm' = TRUE
         [] op = "Dump" -> form = "data" /\ form' = "doc" /\ norm' = norm
         [] op = "Reload" -> form = "doc" /\ form' = "doc" /\ norm' = norm
    /\ ops' = Append(ops, op)
    /\ UNCHANGED <<prod, cons>>

Next == \E op \in {"Load", "Normalize", "Dump", "Reload"} : Do(op)
Spec == Init /\ [][Next]_vars

\* what the final document must be: the producer's own raw or normalised document
Expected == IF norm THEN "norm" ELSE "raw"

EmitRun ==
    (Emit /\ form = "doc" /\ Len(ops) >= 2 /\ ops[Len(ops)] = "Dump") =>
        PrintT("@@" \o ToJson([prod |-> prod, cons |-> cons, ops |-> ops, expect |-> Expected]) \o "@@")
=============================================================================
