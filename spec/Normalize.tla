------------------------------ MODULE Normalize ------------------------------
(***************************************************************************)
(* code_data/_normalize.py and the notions C05/C06 are stated in.          *)
(*                                                                         *)
(* Normalize(d)   the library's normalize on the abstract data: every      *)
(*                private field reset (position overrides, operand width,  *)
(*                line-offset overrides, NoArg payload, additional args,   *)
(*                additional line, CO_NESTED).                             *)
(* Sem(c, ...)    the MEANING of a code object, read the way CPython reads *)
(*                it (CPyUnits): per instruction the opname, the resolved  *)
(*                operand (value token, never a table index), the jump     *)
(*                target as an instruction index, the line; plus the       *)
(*                header fields that matter.                               *)
(* Canon(c, ...)  the canonical data of a meaning: what normalize must     *)
(*                return for ANY code object with that meaning.  It is     *)
(*                built from CPython's reading alone, so two code objects  *)
(*                that differ only in serialisation artefacts have the     *)
(*                same Canon by construction; C06 ("normalization yields a *)
(*                canonical form") is  Normalize(from_code(c)) = Canon(c). *)
(***************************************************************************)
EXTENDS Integers, Sequences, SequencesExt, FiniteSets, TLC

U == INSTANCE CPyUnits
V == INSTANCE Versions
H == INSTANCE CPyHeader

NormInstr(i) ==
    <<i[1], i[2],
      IF i[2] = "0" THEN 0 ELSE i[3],
      IF i[2] \in {"N", "V", "K", "C"} THEN -1 ELSE i[4],
      -1, i[6], <<>>>>

\* d: the projected data (see Decode.tla / Encode.tla)
Normalize(d) ==
    [d EXCEPT !.instrs = [j \in DOMAIN d.instrs |-> NormInstr(d.instrs[j])],
              !.additional = <<>>, !.addline = <<>>, !.nested = FALSE]

\* ---------------------------------------------------------------- meaning of a code object
FnLike(c) == 0 \in c.flags /\ 1 \in c.flags

\* c.flags is a set of bit indices; cpylines[k] is CPython's line of unit k (absolute, None-coded)
SemInstrs(c, scale, cpylines) ==
    LET ins == U!Instructions(c.units)
        n == Len(ins)
        idxAt(t) == LET S == {j \in 1..n : ins[j].off = t} IN IF S = {} THEN -1 ELSE (CHOOSE j \in S : TRUE) - 1
    IN [j \in 1..n |->
          LET i == ins[j] IN
          <<i.op,
            CASE i.cls \in {"NAME", "LOCAL", "CONST"} -> U!Operand(i, c)
              [] i.cls = "FREE" -> U!Operand(i, c)
              [] U!IsJump(i) -> idxAt(U!JumpTarget(i, scale))
              [] i.cls = "RAW" -> i.arg
              [] OTHER -> 0,
            IF i.cls = "JREL" THEN 1 ELSE 0,
            cpylines[i.off \div 2 + 1],
            \* the line CPython reports while the instruction runs (f_lasti is at the opcode unit,
            \* behind any EXTENDED_ARG prefix)
            cpylines[i.opoff \div 2 + 1]>>]

Sem(c, scale, cpylines) ==
    [instrs |-> SemInstrs(c, scale, cpylines),
     bind |-> IF FnLike(c) THEN H!BindKinds(c) ELSE <<>>,
     fnlike |-> FnLike(c),
     kindflags |-> c.flags \cap {5, 7, 9},
     varflags |-> c.flags \cap {2, 3},
     otherflags |-> c.flags \ {0, 1, 2, 3, 4, 5, 6, 7, 9},
     doc |-> IF FnLike(c) /\ Len(c.consts) > 0 /\ c.const_is_str[1] THEN <<c.consts[1]>> ELSE <<>>,
     freevars |-> c.freevars, name |-> c.name, filename |-> c.filename, first |-> c.first,
     stacksize |-> c.stacksize]

\* ---------------------------------------------------------------- canonical data of a meaning
KindOfCls(i, c) ==
    CASE i.cls = "NAME" -> "N" [] i.cls = "LOCAL" -> "V" [] i.cls = "CONST" -> "K"
      [] i.cls = "FREE" -> (IF i.arg < Len(c.cellvars) THEN "C" ELSE "F")
      [] i.cls = "NOARG" -> "0" [] i.cls = "RAW" -> "I" [] OTHER -> "J"

CanonInstrs(c, scale, cpylines) ==
    LET ins == U!Instructions(c.units)
        n == Len(ins)
        targets == {0} \cup {U!JumpTarget(ins[j], scale) : j \in {k \in 1..n : U!IsJump(ins[k])}}
        rank(t) == Cardinality({x \in targets : x < t})
    IN [j \in 1..n |->
          LET i == ins[j] k == KindOfCls(i, c) IN
          <<i.op, k,
            CASE k \in {"N", "V", "K", "C", "F"} -> U!Operand(i, c)
              [] k = "J" -> rank(U!JumpTarget(i, scale))
              [] k = "I" -> i.arg
              [] OTHER -> 0,
            IF k = "J" THEN (IF i.cls = "JREL" THEN 1 ELSE 0) ELSE -1,
            -1, cpylines[i.off \div 2 + 1], <<>>>>]

CanonBlockStarts(c, scale) ==
    LET ins == U!Instructions(c.units)
        n == Len(ins)
        targets == {0} \cup {U!JumpTarget(ins[j], scale) : j \in {k \in 1..n : U!IsJump(ins[k])}}
    IN SelectSeq([j \in 1..n |-> IF ins[j].off \in targets THEN j - 1 ELSE -1], LAMBDA x: x # -1)

\* kinds -> Args record
ArgsOfBind(b) ==
    LET pick(k) == SelectSeq([i \in DOMAIN b |-> IF b[i][2] = k THEN b[i][1] ELSE -1], LAMBDA x: x # -1)
    IN [po |-> pick(0), pk |-> pick(1), va |-> pick(2), ko |-> pick(3), vk |-> pick(4)]

\* the normalised data every code object with the meaning of c must decode to
Canon(c, ver, cpylines) ==
    LET scale == V!JumpScale(ver)
        fn == FnLike(c)
        kinds == {"GENERATOR", "COROUTINE", "ASYNC_GENERATOR"}
        kindname == IF 5 \in c.flags THEN "GENERATOR" ELSE IF 7 \in c.flags THEN "COROUTINE"
                    ELSE IF 9 \in c.flags THEN "ASYNC_GENERATOR" ELSE ""
    IN [instrs |-> CanonInstrs(c, scale, cpylines),
        block_starts |-> CanonBlockStarts(c, scale),
        is_fn |-> fn,
        args |-> IF fn THEN ArgsOfBind(H!BindKinds(c)) ELSE [po |-> <<>>, pk |-> <<>>, va |-> <<>>, ko |-> <<>>, vk |-> <<>>],
        doc |-> IF fn /\ Len(c.consts) > 0 /\ c.const_is_str[1] THEN <<c.consts[1]>> ELSE <<>>,
        fn_type |-> IF fn THEN kindname ELSE "",
        annotations |-> V!FlagBit(ver, "annotations") \in c.flags,
        nested |-> FALSE, additional |-> <<>>, addline |-> <<>>,
        freevars |-> c.freevars, first |-> c.first, name |-> c.name, filename |-> c.filename,
        stacksize |-> c.stacksize]

\* the fields of a projected data record that Canon speaks about
Core(d) ==
    [instrs |-> d.instrs, block_starts |-> d.block_starts, is_fn |-> d.is_fn, args |-> d.args, doc |-> d.doc,
     fn_type |-> d.fn_type, annotations |-> d.annotations, nested |-> d.nested, additional |-> d.additional,
     addline |-> d.addline, freevars |-> d.freevars, first |-> d.first, name |-> d.name,
     filename |-> d.filename, stacksize |-> d.stacksize]

\* C05: two code objects mean the same.  Flags may differ in CO_NESTED, and in CO_NOFREE when a
\* cell variable that nothing references disappeared.
SameMeaning(s1, s2) == s1 = s2

=============================================================================
