------------------------------- MODULE MC_Json -------------------------------
(***************************************************************************)
(* Bounded model for C07 / C08: every constant term over the atom alphabet *)
(* up to a nesting depth.  Each initial state is one term.  Invariants on   *)
(* the documented JSON form (CPyConst!ToJson): it is plain JSON, and it is  *)
(* injective up to LibKey on the explored terms (checked pairwise against   *)
(* a fixed set of probe terms).  Every term is printed; the harness builds  *)
(* the real Python constant, places it in every position of a CodeData and *)
(* pushes it through the real JSON codec (C07) and through ==/hash against *)
(* the other terms by several routes (C08).                                *)
(***************************************************************************)
EXTENDS Integers, Sequences, SequencesExt, FiniteSets, TLC, Json

CONSTANTS Depth,      \* 0, 1 or 2
          Emit

C == INSTANCE CPyConst
J == INSTANCE JsonCodec

VARIABLES term
vars == <<term>>

SpecialFloats == {"f0", "fm0", "nan", "inf", "f15"}
Level0 == C!Terms0 \cup C!Complexes(SpecialFloats)
\* elements used inside containers (kept small so that depth 2 stays enumerable)
Elem0 == {C!At("i0"), C!At("i1"), C!At("true"), C!At("f0"), C!At("fm0"), C!At("f1"), C!At("nan"), C!At("nan2"), C!At("inf"), C!At("ihuge"), C!At("sa"), C!At("ssurr"), C!At("ba"), C!At("none"), C!At("ellipsis"),
          <<"complex", "fm0", "nan">>}
Level1 == C!Tuples(Elem0, 2) \cup C!Sets(Elem0, 2)
Elem1 == {<<"tuple", <<>>>>, <<"tuple", <<C!At("i1")>>>>, <<"tuple", <<C!At("nan")>>>>, <<"tuple", <<C!At("f0"), C!At("fm0")>>>>,
          <<"frozenset", {}>>, <<"frozenset", {C!At("i1"), C!At("f0")}>>, <<"frozenset", {C!At("nan")}>>, <<"frozenset", {C!At("sa"), C!At("ba")}>>}
Level2 == C!Tuples(Elem1 \cup {C!At("i1"), C!At("f1"), C!At("nan")}, 2) \cup C!Sets(Elem1 \cup {C!At("i1")}, 2)

\* long tuples (size-dependent fast paths): 17 and 40 elements, all 1 except one position that holds 1, True or 1.0
LongTuples == {<<"tuple", [k \in 1..n |-> IF k = j THEN C!At(a) ELSE C!At("i1")]>> :
                  n \in {17, 40}, j \in {1, 17}, a \in {"i1", "true", "f1"}}

Terms == LongTuples \cup Level0 \cup (IF Depth >= 1 THEN Level1 ELSE {}) \cup (IF Depth >= 2 THEN Level2 ELSE {})

Init == term \in Terms
Next == UNCHANGED vars
Spec == Init /\ [][Next]_vars

\* probes for the injectivity check
Probes == {C!At("i0"), C!At("i1"), C!At("true"), C!At("false"), C!At("f0"), C!At("fm0"), C!At("f1"), C!At("nan"), C!At("inf"), C!At("sa"), C!At("s1"), C!At("ba"), C!At("none"), C!At("ellipsis"), C!At("ibig1"), C!At("ihuge"),
           <<"tuple", <<>>>>, <<"tuple", <<C!At("i1")>>>>, <<"tuple", <<C!At("true")>>>>, <<"tuple", <<C!At("f1")>>>>, <<"frozenset", {}>>,
           <<"frozenset", {C!At("i1")}>>, <<"frozenset", {C!At("true")}>>, <<"complex", "f0", "f0">>, <<"complex", "fm0", "f0">>,
           <<"tuple", <<C!At("f0")>>>>, <<"tuple", <<C!At("fm0")>>>>, <<"tuple", <<C!At("sa")>>>>, <<"tuple", <<C!At("ba")>>>>}

JsonModel ==
    /\ Emit => PrintT("@@" \o ToJson(term) \o "@@")
    \* the JSON form distinguishes exactly what LibKey distinguishes
    /\ \A p \in Probes :
          (J!CanonTree(C!ToJson(term)) = J!CanonTree(C!ToJson(p))) <=> (C!LibKey(term) = C!LibKey(p))
=============================================================================
