----------------------------- MODULE Trace_Values -----------------------------
(***************************************************************************)
(* Trace validation for C08.  The first event lists the constant terms of  *)
(* the bounded model; event i ("pairs") records, for the real Constant     *)
(* objects of term i reached by every route (hand construction, a second   *)
(* independently built object, JSON load, decode of encoded code,          *)
(* normalisation) against those of every term j by every route: which      *)
(* compare equal, hash / set / dict misbehaviour, asymmetries; the         *)
(* partition CPython's own _PyCode_ConstantKey makes; "frozen" events      *)
(* record attempts to assign or delete every field of decoded data.        *)
(***************************************************************************)
EXTENDS Integers, Sequences, SequencesExt, FiniteSets, TLC, TLCExt, Json, IOUtils

C == INSTANCE CPyConst

Tr == ndJsonDeserialize(IOEnv.TRACE_FILE)

VARIABLES l
vars == <<l>>

RECURSIVE TermOf(_)
TermOf(t) ==
    CASE t[1] = "tuple" -> <<"tuple", [i \in DOMAIN t[2] |-> TermOf(t[2][i])]>>
      [] t[1] = "frozenset" -> <<"frozenset", {TermOf(t[2][i]) : i \in DOMAIN t[2]}>>
      [] OTHER -> t

Terms == [j \in DOMAIN Tr[1].terms |-> TermOf(Tr[1].terms[j])]
LibKeys == [j \in DOMAIN Terms |-> C!LibKey(Terms[j])]
CPyKeys == [j \in DOMAIN Terms |-> C!CPyKey(Terms[j])]
N == Len(Terms)

PairClauses(e) ==
    LET i == e.i
        expected == {j \in 1..N : LibKeys[j] = LibKeys[i]}
        cpyexp == {j \in 1..N : CPyKeys[j] = CPyKeys[i]}
    IN <<
        \* the specification's model of CPython's constant table partition is CPython's
        <<"ENV.cpykey", ToSet(e.cpy_same) = cpyexp>>,
        <<"P08.noraise", e.exc = "" /\ e.missing_routes = <<>>>>,
        \* equality distinguishes exactly what CPython's constant table distinguishes, NaNs identified,
        \* whatever the route by which the two objects were made
        <<"P08.eq", e.exc = "" => \A k \in DOMAIN e.eq : ToSet(e.eq[k][3]) = expected>>,
        <<"P08.equivalence", e.exc = "" => (e.asym = <<>> /\ e.refl_bad = <<>>)>>,
        <<"P08.hash", e.exc = "" => (e.hash_bad = <<>> /\ e.set_bad = <<>>)>>,
        <<"P08.codedata", e.exc = "" => (ToSet(e.carrier_eq) = expected /\ e.carrier_hash_bad = <<>>)>>
       >>

FrozenClauses(e) ==
    << <<"P08.noraise", e.exc = "">>,
       <<"P08.frozen", e.exc = "" => (e.assignable = <<>> /\ ~e.changed /\ e.mutable = <<>>)>>,
       <<"P08.hashable", e.exc = "" => e.hashable>>,
       <<"P08.identical_code_equal_data", e.exc = "" => (e.twice_eq /\ e.twice_hash)>>,
       \* the same program by different routes (decode, JSON load, hand construction with new objects everywhere,
       \* re-decoding its own code; the normalised forms of those): equal data, and any two equal values hash alike
       \* and encode to identical code objects
       <<"P08.routes_equal", e.exc = "" => e.route_uneq = <<>>>>,
       <<"P08.routes_hash", e.exc = "" => e.route_hash_bad = <<>>>>,
       <<"P08.equal_implies_identical", e.exc = "" => e.route_code_bad = <<>>>> >>

\* "perturb": data decoded from two real code objects that differ in exactly one attribute.
\* p = <<what, equal, hash equal, to_code identical, is a constant swap>>
PerturbClauses(e) ==
    << <<"P08.noraise", e.exc = "">>,
       \* equal CodeData encode to identical code objects (and hash alike)
       <<"P08.equal_implies_identical", \A i \in DOMAIN e.perts : e.perts[i][2] => (e.perts[i][3] /\ e.perts[i][4])>>,
       \* a constant replaced by an ==-equal constant of another type / sign is another value
       <<"P08.type_exact", \A i \in DOMAIN e.perts : e.perts[i][5] => ~e.perts[i][2]>> >>

Failing(e) ==
    LET cs == IF e.kind = "pairs" THEN PairClauses(e) ELSE IF e.kind = "frozen" THEN FrozenClauses(e)
              ELSE IF e.kind = "perturb" THEN PerturbClauses(e) ELSE <<>>
    IN SelectSeq([i \in DOMAIN cs |-> IF cs[i][2] THEN "" ELSE cs[i][1]], LAMBDA x: x # "")

Init == l = 1
Step == l <= Len(Tr) /\ l' = l + 1
Spec == Init /\ [][Step]_vars

EventChecked ==
    (l > 1) => LET bad == Failing(Tr[l - 1]) IN
        (bad # <<>>) => PrintT("@@" \o ToJson([id |-> Tr[l - 1].id, bad |-> bad]) \o "@@")

TraceAccepted == TLCGet("stats").diameter - 1 = Len(Tr)
=============================================================================
