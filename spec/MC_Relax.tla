------------------------------ MODULE MC_Relax ------------------------------
(***************************************************************************)
(* Bounded model of the encoder's jump-size relaxation loop (C03).         *)
(*                                                                         *)
(* A program is a sequence of blocks; block b is `pad[b]` plain code units *)
(* followed by at most one jump (absolute to any block, or relative to a   *)
(* later block).  Each initial state is one such jump graph; RelaxStep is  *)
(* one iteration of `while changed_instruction_lengths` (Encode!RelaxPass).*)
(* TLC checks on every graph:                                              *)
(*   Terminates   the loop stops                (liveness, WF on RelaxStep)*)
(*   PassBound    within 3*|jumps| + 1 passes                              *)
(*   SizesGrow    no operand ever gets narrower between passes (this is    *)
(*                why the bound holds; a backward relative jump breaks it  *)
(*                and is outside well-formedness)                          *)
(*   JumpsLand    at the fixed point every jump operand, read the way      *)
(*                CPython reads it, designates the first unit of its       *)
(*                target block                                             *)
(* The padding of a block is modelled as ONE instruction whose             *)
(* _n_args_override is the padding (the encoder treats that exactly like   *)
(* that many one-unit instructions); the harness replays every graph on    *)
(* the real library with real one-unit instructions.                       *)
(***************************************************************************)
EXTENDS Integers, Sequences, SequencesExt, FiniteSets, TLC, Json

CONSTANTS NB,        \* number of blocks ("grid" family)
          Pads,      \* paddings (code units) a block may have ("grid"); the window of the big padding ("cascade")
          Scale,     \* 1: operands in bytes (<= 3.9), 2: in code units (3.10)
          Family,    \* "grid": every graph over NB blocks;  "cascade": chains of dependent growths;
                     \* "freeshift": a free-variable operand that crosses a width boundary when the number of
                     \* cell variables is added to it AFTER the loop (Pads = the numbers of cell variables)
          MaxK,      \* "cascade": number of chained jumps, 1..MaxK
          Emit

EN == INSTANCE Encode

VARIABLES pad, jmp, args, pass, changed
vars == <<pad, jmp, args, pass, changed>>

\* The number of blocks of the current graph (a "cascade" of K jumps has 2K + 1 blocks)
NBlk == Cardinality(DOMAIN pad)

\* jmp[b] = <<kind, target>>, kind "none" | "abs" | "rel"
JumpChoices(b) == {<<"none", 0>>} \cup {<<"abs", t>> : t \in 0..(NB - 1)} \cup {<<"rel", t>> : t \in (b + 1)..(NB - 1)}

PadIns(p) == <<"NOP", "0", 0, -1, p, 1, <<>>>>
JumpIns(j) == IF j[1] = "abs" THEN <<"JUMP_ABSOLUTE", "J", j[2], 0, -1, 1, <<>>>>
                                ELSE <<"JUMP_FORWARD", "J", j[2], 1, -1, 1, <<>>>>

BlockInstrs(b) == (IF pad[b] > 0 THEN <<PadIns(pad[b])>> ELSE <<>>)
                  \o (IF jmp[b][1] # "none" THEN <<JumpIns(jmp[b])>> ELSE <<>>)

\* every block needs at least one instruction
NonEmpty == \A b \in DOMAIN pad : pad[b] > 0 \/ jmp[b][1] # "none"

\* "freeshift": block 0 = ncell LOAD_CLOSUREs (one per cell variable), a load of free variable 0, a
\* jump to block 1; block 1 = one unit.  pad[0] holds ncell, pad[1] = 1.
CellIns(i) == <<"LOAD_CLOSURE", "C", 1000 + i, -1, -1, 1, <<>>>>
FreeIns == <<"LOAD_DEREF", "F", 2000, -1, -1, 1, <<>>>>
NCells == IF Family = "freeshift" THEN pad[0] ELSE 0

Data ==
    IF Family = "freeshift"
    THEN [instrs |-> [i \in 1..pad[0] |-> CellIns(i - 1)] \o <<FreeIns, JumpIns(<<"abs", 1>>), PadIns(1)>>,
          block_starts |-> <<0, pad[0] + 2>>]
    ELSE
    LET per == [b \in 1..NBlk |-> BlockInstrs(b - 1)]
        starts == [b \in 1..NBlk |-> FoldLeft(LAMBDA a, x: a + Len(x), 0, SubSeq(per, 1, b - 1))]
    IN [instrs |-> EN!Flatten(per), block_starts |-> starts]

\* operands when the loop starts: a jump is 1, a cell variable its index, free variable 0 is
\* 0 + the number of cell variables (the shift happens before the loop)
InitArgs == [i \in DOMAIN Data.instrs |->
               CASE Data.instrs[i][2] = "J" -> 1
                 [] Data.instrs[i][2] = "C" -> Data.instrs[i][3] - 1000
                 [] Data.instrs[i][2] = "F" -> NCells
                 [] OTHER -> 0]

\* "cascade": K absolute jumps at the very start (to the K one-unit blocks at the end, farthest
\* first), then one block of P plain units.  When P puts the last target just beyond what one
\* operand byte reaches, only the first jump needs two units at first; its growth pushes the next
\* target over the boundary, and so on: one more pass of the loop per jump.
CascadePad(K, P) == [b \in 0..(2 * K) |-> IF b < K THEN 0 ELSE IF b = K THEN P ELSE 1]
CascadeJmp(K) == [b \in 0..(2 * K) |-> IF b < K THEN <<"abs", 2 * K - b>> ELSE <<"none", 0>>]

Init ==
    /\ IF Family = "grid"
       THEN /\ pad \in [0..(NB - 1) -> Pads]
            /\ jmp \in [0..(NB - 1) -> UNION {JumpChoices(b) : b \in 0..(NB - 1)}]
            /\ \A b \in 0..(NB - 1) : jmp[b] \in JumpChoices(b)
       ELSE IF Family = "cascade"
       THEN \E K \in 1..MaxK, P \in Pads : pad = CascadePad(K, P) /\ jmp = CascadeJmp(K)
       ELSE \E n \in Pads : pad = (0 :> n) @@ (1 :> 1) /\ jmp = (0 :> <<"abs", 1>>) @@ (1 :> <<"none", 0>>)
    /\ NonEmpty
    /\ args = InitArgs
    /\ pass = 0
    /\ changed = TRUE

RelaxStep ==
    /\ changed
    /\ LET r == EN!RelaxPass(Data, args, Scale) IN
        /\ args' = r.args
        /\ changed' = r.changed
    /\ pass' = pass + 1
    /\ UNCHANGED <<pad, jmp>>

Next == RelaxStep
Spec == Init /\ [][Next]_vars /\ WF_vars(RelaxStep)

----------------------------------------------------------------------------
NJumps == Cardinality({b \in DOMAIN pad : jmp[b][1] # "none"})

Terminates == <>(~changed)

PassBound == pass <= 3 * NJumps + 1

Sizes(a) == [i \in DOMAIN Data.instrs |-> EN!SizeOf(Data.instrs[i], a[i])]
SizesGrow == [][\A i \in DOMAIN Data.instrs : Sizes(args')[i] >= Sizes(args)[i]]_vars

\* at the fixed point: CPython's reading of each jump operand is the target block's first unit
JumpsLand ==
    (~changed) =>
        LET d == Data
            offs == EN!Offsets(d, args)
            mult == IF Scale = 2 THEN 1 ELSE 2
        IN \A i \in DOMAIN d.instrs :
             d.instrs[i][2] = "J" =>
                LET tgtUnit == offs[d.block_starts[d.instrs[i][3] + 1] + 1]
                    \* units -> what the interpreter computes from the operand
                    dest == IF d.instrs[i][4] = 1 THEN offs[i + 1] * mult + args[i] ELSE args[i]
                IN /\ dest = tgtUnit * mult
                   /\ EN!InstrSize(args[i]) = Sizes(args)[i]

\* The code that is finally assembled: free-variable operands get the number of cell variables
\* added.  In the library this happens BEFORE the loop since "fix:" commit (C03); it used to happen
\* after it, with the widths the loop had settled on.
\* the jumps must land in THAT layout.
FinalArgs == args
JumpsLandFinal ==
    (~changed) =>
        LET d == Data
            offs == EN!Offsets(d, FinalArgs)
            mult == IF Scale = 2 THEN 1 ELSE 2
        IN \A i \in DOMAIN d.instrs :
             d.instrs[i][2] = "J" =>
                (IF d.instrs[i][4] = 1 THEN offs[i + 1] * mult + args[i] ELSE args[i])
                = offs[d.block_starts[d.instrs[i][3] + 1] + 1] * mult

\* replay output: one line per graph, with the number of passes and the final operands
EmitDone ==
    ((~changed) /\ Emit) =>
        PrintT("@@" \o ToJson(<<[b \in 1..NBlk |-> pad[b - 1]], [b \in 1..NBlk |-> jmp[b - 1]], pass,
                               EN!JumpArgs(Data, args)>>) \o "@@")
=============================================================================
