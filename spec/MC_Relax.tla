------------------------------ MODULE MC_Relax ------------------------------
(***************************************************************************)
(* Bounded model of the encoder's jump-size relaxation loop (C03).         *)
(*                                                                         *)
(* A program is a sequence of blocks; block b is `pad[b]` plain code units *)
(* followed by at most one jump (absolute to any block, or relative to a   *)
(* later block).  Each initial state is one such jump graph; RelaxStep is  *)
(* one iteration of `while changed_instruction_lengths` (Encode!RelaxPass).*)
(* TLC checks on every graph:                                              *)
(*   Terminates   the loop stops                (liveness, WF on RelaxStep)*)
(*   PassBound    within 3*|jumps| + 1 passes                              *)
(*   SizesGrow    no operand ever gets narrower between passes (this is    *)
(*                why the bound holds; a backward relative jump breaks it  *)
(*                and is outside well-formedness)                          *)
(*   JumpsLand    at the fixed point every jump operand, read the way      *)
(*                CPython reads it, designates the first unit of its       *)
(*                target block                                             *)
(* The padding of a block is modelled as ONE instruction whose             *)
(* _n_args_override is the padding (the encoder treats that exactly like   *)
(* that many one-unit instructions); the harness replays every graph on    *)
(* the real library with real one-unit instructions.                       *)
(***************************************************************************)
EXTENDS Integers, Sequences, SequencesExt, FiniteSets, TLC, Json

CONSTANTS NB,        \* number of blocks
          Pads,      \* paddings (code units) a block may have
          Scale,     \* 1: operands in bytes (<= 3.9), 2: in code units (3.10)
          Emit

EN == INSTANCE Encode

VARIABLES pad, jmp, args, pass, changed
vars == <<pad, jmp, args, pass, changed>>

\* jmp[b] = <<kind, target>>, kind "none" | "abs" | "rel"
JumpChoices(b) == {<<"none", 0>>} \cup {<<"abs", t>> : t \in 0..(NB - 1)} \cup {<<"rel", t>> : t \in (b + 1)..(NB - 1)}

PadIns(p) == <<"NOP", "0", 0, -1, p, 1, <<>>>>
JumpIns(j) == IF j[1] = "abs" THEN <<"JUMP_ABSOLUTE", "J", j[2], 0, -1, 1, <<>>>>
                                ELSE <<"JUMP_FORWARD", "J", j[2], 1, -1, 1, <<>>>>

BlockInstrs(b) == (IF pad[b] > 0 THEN <<PadIns(pad[b])>> ELSE <<>>)
                  \o (IF jmp[b][1] # "none" THEN <<JumpIns(jmp[b])>> ELSE <<>>)

\* every block needs at least one instruction
NonEmpty == \A b \in 0..(NB - 1) : pad[b] > 0 \/ jmp[b][1] # "none"

Data ==
    LET per == [b \in 1..NB |-> BlockInstrs(b - 1)]
        starts == [b \in 1..NB |-> FoldLeft(LAMBDA a, x: a + Len(x), 0, SubSeq(per, 1, b - 1))]
    IN [instrs |-> EN!Flatten(per), block_starts |-> starts]

InitArgs == [i \in DOMAIN Data.instrs |-> IF Data.instrs[i][2] = "J" THEN 1 ELSE 0]

Init ==
    /\ pad \in [0..(NB - 1) -> Pads]
    /\ jmp \in [0..(NB - 1) -> UNION {JumpChoices(b) : b \in 0..(NB - 1)}]
    /\ \A b \in 0..(NB - 1) : jmp[b] \in JumpChoices(b)
    /\ NonEmpty
    /\ args = InitArgs
    /\ pass = 0
    /\ changed = TRUE

RelaxStep ==
    /\ changed
    /\ LET r == EN!RelaxPass(Data, args, Scale) IN
        /\ args' = r.args
        /\ changed' = r.changed
    /\ pass' = pass + 1
    /\ UNCHANGED <<pad, jmp>>

Next == RelaxStep
Spec == Init /\ [][Next]_vars /\ WF_vars(RelaxStep)

----------------------------------------------------------------------------
NJumps == Cardinality({b \in 0..(NB - 1) : jmp[b][1] # "none"})

Terminates == <>(~changed)

PassBound == pass <= 3 * NJumps + 1

Sizes(a) == [i \in DOMAIN Data.instrs |-> EN!SizeOf(Data.instrs[i], a[i])]
SizesGrow == [][\A i \in DOMAIN Data.instrs : Sizes(args')[i] >= Sizes(args)[i]]_vars

\* at the fixed point: CPython's reading of each jump operand is the target block's first unit
JumpsLand ==
    (~changed) =>
        LET d == Data
            offs == EN!Offsets(d, args)
            mult == IF Scale = 2 THEN 1 ELSE 2
        IN \A i \in DOMAIN d.instrs :
             d.instrs[i][2] = "J" =>
                LET tgtUnit == offs[d.block_starts[d.instrs[i][3] + 1] + 1]
                    \* units -> what the interpreter computes from the operand
                    dest == IF d.instrs[i][4] = 1 THEN offs[i + 1] * mult + args[i] ELSE args[i]
                IN /\ dest = tgtUnit * mult
                   /\ EN!InstrSize(args[i]) = Sizes(args)[i]

\* replay output: one line per graph, with the number of passes and the final operands
EmitDone ==
    ((~changed) /\ Emit) =>
        PrintT("@@" \o ToJson(<<[b \in 1..NB |-> pad[b - 1]], [b \in 1..NB |-> jmp[b - 1]], pass,
                               EN!JumpArgs(Data, args)>>) \o "@@")
=============================================================================
