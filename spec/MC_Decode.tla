------------------------------ MODULE MC_Decode ------------------------------
(***************************************************************************)
(* Bounded model for the decoder (C02, C13; design-level check of the      *)
(* reference decoder Decode.tla).  The environment emits a word-code       *)
(* stream one code unit at a time and the decoder consumes each unit as it *)
(* appears (DecodeUnit is the action); when the stream is complete and is  *)
(* a well-formed program (every operand indexes inside its table, every    *)
(* jump lands on an instruction boundary) the decoder finishes and the     *)
(* properties of DecodeProps.tla must hold between its output and          *)
(* CPython's reading of the same stream (CPyUnits.tla).                    *)
(*                                                                         *)
(* Completed states are printed for replay on the real interpreters.       *)
(***************************************************************************)
EXTENDS Integers, Sequences, SequencesExt, FiniteSets, TLC, Json

CONSTANTS Ver,          \* "37" | "38" | "39" | "310"
          MaxUnits,     \* length of the stream in code units
          MaxPrefix,    \* EXTENDED_ARG prefixes per instruction
          Classes,      \* operand classes the environment may emit
          ByteVals,     \* operand bytes
          Emit

D == INSTANCE Decode
U == INSTANCE CPyUnits
V == INSTANCE Versions
P == INSTANCE DecodeProps
L == INSTANCE Lines

\* a module-level code object with small tables (tokens are arbitrary distinct numbers; the
\* `*_keys` say which entries the encoder could confuse: none here)
Base ==
    [names |-> <<10, 11, 12>>, varnames |-> <<20, 21>>, cellvars |-> <<30>>, freevars |-> <<40>>,
     consts |-> <<50, 51, 52>>,
     name_keys |-> <<110, 111, 112>>, varname_keys |-> <<120, 121>>, cellvar_keys |-> <<130>>,
     const_keys |-> <<150, 151, 152>>, none_key |-> 150,
     const_is_str |-> <<FALSE, TRUE, FALSE>>, const_is_code |-> <<FALSE, FALSE, FALSE>>,
     first |-> 1, argcount |-> 0, posonly |-> 0, kwonly |-> 0, flags |-> {},
     table |-> <<>>]

VARIABLES units, s, done
vars == <<units, s, done>>

Scale == V!JumpScale(Ver)
Code == [Base EXCEPT !.table = <<>>] @@ [units |-> units]
Hdr == D!DecodeHeader(Code, Ver)
\* every unit on the first line (the line codec has its own model, MC_Lines)
LM == [lines |-> [k \in 1..MaxUnits |-> 0], addl |-> [k \in 1..MaxUnits |-> <<>>]]

Init ==
    /\ units = <<>>
    /\ s = D!DecodeInit([Base EXCEPT !.table = <<>>] @@ [units |-> <<>>], D!DecodeHeader([Base EXCEPT !.table = <<>>] @@ [units |-> <<>>], Ver))
    /\ done = FALSE

\* the environment emits one unit and the decoder consumes it
Unit(cls, b) ==
    /\ ~done
    /\ Len(units) < MaxUnits
    /\ (cls = "EXT") => (s.n < MaxPrefix /\ Len(units) + 1 < MaxUnits)
    \* An EXTENDED_ARG in front of an opcode without argument is outside the domain: dis carries
    \* the prefix over to the next instruction, the interpreter loop (and the library) do not, so
    \* CPython has no single reading of such a stream; no compiler emits it.
    /\ (cls = "NOARG") => s.n = 0
    /\ LET u == <<cls, cls, b>> IN
        /\ units' = Append(units, u)
        /\ s' = D!DecodeUnit(s, u, Len(units) + 1, [Code EXCEPT !.units = Append(units, u)], Hdr, LM, Scale)
    /\ UNCHANGED done

\* well-formed program: operands inside their tables, jumps onto instruction boundaries
WellFormed ==
    LET ins == U!Instructions(units)
        offs == {ins[j].off : j \in DOMAIN ins}
    IN /\ s.n = 0 /\ s.exc = ""
       /\ \A j \in DOMAIN ins :
            /\ U!IsJump(ins[j]) => U!JumpTarget(ins[j], Scale) \in offs
            /\ U!Operand(ins[j], Code) # -3

Finish ==
    /\ ~done
    /\ Len(units) >= 1
    /\ WellFormed
    /\ done' = TRUE
    /\ UNCHANGED <<units, s>>

Next == (\E cls \in Classes, b \in ByteVals : Unit(cls, b)) \/ Finish

Spec == Init /\ [][Next]_vars

----------------------------------------------------------------------------
\* the reference decoder's result in the projected form the properties talk about
Result ==
    LET n == Len(units)
        lm == [lines |-> SubSeq(LM.lines, 1, n), addl |-> SubSeq(LM.addl, 1, n)]
        f == D!DecodeFinish(s, Code, lm, n)
        nb == Len(f.block_starts)
        ni == Len(f.instrs)
    IN [exc |-> f.exc, instrs |-> f.instrs, block_starts |-> f.block_starts,
        block_lens |-> [b \in 1..nb |-> (IF b < nb THEN f.block_starts[b + 1] ELSE ni) - f.block_starts[b]],
        additional |-> f.additional,
        is_fn |-> FALSE, params |-> <<>>, nargs |-> 0, doc |-> <<>>, fn_type |-> ""]

NoInsp == [ok |-> FALSE, bind |-> <<>>, doc |-> <<>>, kind |-> ""]

\* C02 + C13 (+ the additional-args half of C09) on the reference decoder
DecodeModel ==
    done => LET r == Result
                cs == P!PropClauses(Code, Ver, r, [k \in 1..Len(units) |-> 1], NoInsp, <<>>)
                bad == SelectSeq([i \in DOMAIN cs |-> IF cs[i][2] THEN "" ELSE cs[i][1]], LAMBDA x: x # "")
            IN /\ Emit => PrintT("@@" \o ToJson(<<Ver, units, r.instrs, r.block_starts, bad>>) \o "@@")
               /\ bad = <<>>

\* vacuity witnesses (each is expected to be VIOLATED: the model does reach such states)
NoJumpToPrefixed ==
    ~(done /\ \E j \in DOMAIN U!Instructions(units) :
          LET i == U!Instructions(units)[j] IN
          U!IsJump(i) /\ \E k \in DOMAIN U!Instructions(units) :
              U!Instructions(units)[k].n > 1 /\ U!Instructions(units)[k].off = U!JumpTarget(i, Scale))
=============================================================================
