------------------------------ MODULE MC_Decode ------------------------------
(***************************************************************************)
(* Bounded model for the decoder (C02, C13; design-level check of the      *)
(* reference decoder Decode.tla).  The environment emits a word-code       *)
(* stream one code unit at a time and the decoder consumes each unit as it *)
(* appears (DecodeUnit is the action); when the stream is complete and is  *)
(* a well-formed program (every operand indexes inside its table, every    *)
(* jump lands on an instruction boundary) the decoder finishes and the     *)
(* properties of DecodeProps.tla must hold between its output and          *)
(* CPython's reading of the same stream (CPyUnits.tla).                    *)
(*                                                                         *)
(* Completed states are printed for replay on the real interpreters.       *)
(***************************************************************************)
EXTENDS Integers, Sequences, SequencesExt, FiniteSets, TLC, Json

CONSTANTS Ver,          \* "37" | "38" | "39" | "310"
          MaxUnits,     \* length of the stream in code units
          MaxPrefix,    \* EXTENDED_ARG prefixes per instruction
          Classes,      \* operand classes the environment may emit
          ByteVals,     \* operand bytes
          Scope,        \* "module" | "shadow" | "dup" | "wide" (= module, small class set) | "fn" (function, first constant None) | "fndoc" (function with a docstring)
          Emit

D == INSTANCE Decode
U == INSTANCE CPyUnits
V == INSTANCE Versions
P == INSTANCE DecodeProps
L == INSTANCE Lines
EN == INSTANCE Encode
NZ == INSTANCE Normalize

\* a module-level code object with small tables (tokens are arbitrary distinct numbers; the
\* `*_keys` say which entries the encoder could confuse: none here)
\* Scope "module": no flags.  "fn": a function of one parameter (varnames[1]) whose first constant is
\* None (token 50 is None) and second a string: the encoder's "prepend None" rule is in play.
\* "fndoc": the first constant is a string, i.e. the docstring (tokens 50 and 51 swap roles).
IsFn == Scope \in {"fn", "fndoc"}
Base ==
    [names |-> <<10, 11, 12>>, varnames |-> <<20, 21>>, cellvars |-> <<30>>,
     \* scope "shadow": ONE name is a cell and a free variable of the same code object (a class body whose method
     \* uses super() and which reads the enclosing function's own __class__ variable)
     freevars |-> IF Scope = "shadow" THEN <<30>> ELSE <<40>>,
     \* scope "dup": co_consts holds the SAME constant at two positions and both are used (the <=3.9 peephole
     \* appends a folded default-arguments tuple although an equal tuple is already there)
     consts |-> IF Scope = "fndoc" THEN <<51, 50, 52>> ELSE IF Scope = "dup" THEN <<50, 51, 50>> ELSE <<50, 51, 52>>,
     name_keys |-> <<110, 111, 112>>, varname_keys |-> <<120, 121>>, cellvar_keys |-> <<130>>,
     const_keys |-> IF Scope = "fndoc" THEN <<151, 150, 152>> ELSE IF Scope = "dup" THEN <<150, 151, 150>> ELSE <<150, 151, 152>>,
     none_key |-> 150,
     \* in scope "fn" the third constant is a string too (a string first used from slot 2, not slot 1)
     const_is_str |-> IF Scope = "fndoc" THEN <<TRUE, FALSE, FALSE>> ELSE IF Scope = "fn" THEN <<FALSE, TRUE, TRUE>>
                      ELSE <<FALSE, TRUE, FALSE>>,
     const_is_code |-> <<FALSE, FALSE, FALSE>>,
     first |-> 1, argcount |-> IF IsFn THEN 1 ELSE 0, posonly |-> 0, kwonly |-> 0,
     flags |-> IF IsFn THEN {0, 1} ELSE {},
     name |-> 60, filename |-> 61, stacksize |-> 10, expected_all |-> 1,
     table |-> <<>>]

VARIABLES units, s, done
vars == <<units, s, done>>

Scale == V!JumpScale(Ver)
Code == [Base EXCEPT !.table = <<>>] @@ [units |-> units]
Hdr == D!DecodeHeader(Code, Ver)
\* every unit on the first line (the line codec has its own model, MC_Lines)
LM == [lines |-> [k \in 1..MaxUnits |-> 0], addl |-> [k \in 1..MaxUnits |-> <<>>]]

Init ==
    /\ units = <<>>
    /\ s = D!DecodeInit([Base EXCEPT !.table = <<>>] @@ [units |-> <<>>], D!DecodeHeader([Base EXCEPT !.table = <<>>] @@ [units |-> <<>>], Ver))
    /\ done = FALSE

\* the environment emits one unit and the decoder consumes it
Unit(cls, b) ==
    /\ ~done
    /\ Len(units) < MaxUnits
    /\ (cls = "EXT") => (s.n < MaxPrefix /\ Len(units) + 1 < MaxUnits)
    \* An EXTENDED_ARG in front of an opcode without argument is outside the domain: dis carries
    \* the prefix over to the next instruction, the interpreter loop (and the library) do not, so
    \* CPython has no single reading of such a stream; no compiler emits it.
    /\ (cls = "NOARG") => s.n = 0
    /\ LET u == <<cls, IF cls = "EXT" THEN "EXTENDED_ARG" ELSE cls, b>> IN
        /\ units' = Append(units, u)
        /\ s' = D!DecodeUnit(s, u, Len(units) + 1, [Code EXCEPT !.units = Append(units, u)], Hdr, LM, Scale)
    /\ UNCHANGED done

\* well-formed program: operands inside their tables, jumps onto instruction boundaries
WellFormed ==
    LET ins == U!Instructions(units)
        offs == {ins[j].off : j \in DOMAIN ins}
    IN /\ s.n = 0 /\ s.exc = ""
       /\ \A j \in DOMAIN ins :
            /\ U!IsJump(ins[j]) => U!JumpTarget(ins[j], Scale) \in offs
            /\ U!Operand(ins[j], Code) # -3

Finish ==
    /\ ~done
    /\ Len(units) >= 1
    /\ WellFormed
    /\ done' = TRUE
    /\ UNCHANGED <<units, s>>

Next == (\E cls \in Classes, b \in ByteVals : Unit(cls, b)) \/ Finish

Spec == Init /\ [][Next]_vars

----------------------------------------------------------------------------
\* the reference decoder's result in the projected form the properties talk about
Result ==
    LET n == Len(units)
        lm == [lines |-> SubSeq(LM.lines, 1, n), addl |-> SubSeq(LM.addl, 1, n)]
        f == D!DecodeFinish(s, Code, lm, n)
        nb == Len(f.block_starts)
        ni == Len(f.instrs)
    IN [exc |-> f.exc, instrs |-> f.instrs, block_starts |-> f.block_starts,
        block_lens |-> [b \in 1..nb |-> (IF b < nb THEN f.block_starts[b + 1] ELSE ni) - f.block_starts[b]],
        additional |-> f.additional,
        is_fn |-> IsFn, params |-> IF IsFn THEN <<<<20, 1>>>> ELSE <<>>, nargs |-> IF IsFn THEN 1 ELSE 0,
        doc |-> IF Scope = "fndoc" THEN <<51>> ELSE <<>>, fn_type |-> "",
        iter |-> <<>>, iter_exc |-> "", all_count |-> 1, all_first_self |-> TRUE]

NoInsp == [ok |-> IsFn, bind |-> IF IsFn THEN <<<<20, 1>>>> ELSE <<>>, doc |-> IF Scope = "fndoc" THEN <<51>> ELSE <<>>, kind |-> ""]

\* C02 + C13 (+ the additional-args half of C09) on the reference decoder
DecodeModel ==
    done => LET r == Result
                cs == P!PropClauses(Code, Ver, r, [k \in 1..Len(units) |-> 1], NoInsp, <<>>)
                bad == SelectSeq([i \in DOMAIN cs |-> IF cs[i][2] THEN "" ELSE cs[i][1]], LAMBDA x: x # "")
            IN /\ Emit => PrintT("@@" \o ToJson(<<Ver, units, r.instrs, r.block_starts, bad>>) \o "@@")
               /\ bad = <<>>

\* C01 at design level: the reference encoder applied to the reference decoder's output gives the
\* stream, the tables and the header back (the private override fields carry enough)
AllToks == {Base.names[i] : i \in DOMAIN Base.names} \cup {Base.varnames[i] : i \in DOMAIN Base.varnames}
           \cup {Base.cellvars[i] : i \in DOMAIN Base.cellvars} \cup {Base.freevars[i] : i \in DOMAIN Base.freevars}
           \cup {Base.consts[i] : i \in DOMAIN Base.consts}
KM == [t \in AllToks |-> <<t + 100, t + 100>>]
StrToks == IF Scope = "fn" THEN {51, 52} ELSE {51}

DataOf(r) ==
    [instrs |-> r.instrs, block_starts |-> r.block_starts, additional |-> r.additional, addline |-> <<>>,
     is_fn |-> IsFn,
     args |-> [po |-> <<>>, pk |-> IF IsFn THEN <<20>> ELSE <<>>, va |-> <<>>, ko |-> <<>>, vk |-> <<>>],
     doc |-> IF Scope = "fndoc" THEN <<51>> ELSE <<>>, fn_type |-> "", annotations |-> FALSE, nested |-> FALSE,
     freevars |-> Base.freevars, first |-> 1, name |-> 60, filename |-> 61, stacksize |-> 10]

\* Domain of C01: what the compilers emit.  The <=3.9 peephole leaves redundant EXTENDED_ARG
\* prefixes in front of jumps only (whose operands it shrinks in place); every other instruction
\* has the minimal width.  TLC shows the restriction is necessary: `EXTENDED_ARG 0; LOAD_FAST 0`
\* does not survive a round trip (the data model keeps the width of jumps only).
MinimalWidths ==
    \A j \in DOMAIN U!Instructions(units) :
        LET i == U!Instructions(units)[j] IN U!IsJump(i) \/ i.n = EN!InstrSize(i.arg)

RoundTripModel ==
    (done /\ MinimalWidths) => LET r == Result
                e == EN!Encode(DataOf(r), Ver, KM, StrToks, 50, 20)
            IN /\ e.exc = ""
               /\ e.units = [k \in DOMAIN units |-> <<units[k][2], units[k][3]>>]
               /\ e.names = Base.names /\ e.varnames = Base.varnames /\ e.cellvars = Base.cellvars
               /\ e.consts = Base.consts /\ e.freevars = Base.freevars
               /\ e.flags = Base.flags /\ e.argcount = Base.argcount

\* ---------------------------------------------------------------- C05 / C06 at design level
Lines1 == [k \in 1..Len(units) |-> 1]

\* the code object Encode returns, as an abstract code object (classes are those of the opnames)
ClsOf(op) == IF op = "EXTENDED_ARG" THEN "EXT" ELSE op
CodeOfEnc(e) ==
    [Base EXCEPT !.names = e.names, !.varnames = e.varnames, !.cellvars = e.cellvars, !.consts = e.consts,
                 !.freevars = e.freevars, !.flags = e.flags,
                 !.const_is_str = [i \in DOMAIN e.consts |-> e.consts[i] \in StrToks],
                 !.argcount = e.argcount]
    @@ [units |-> [k \in DOMAIN e.units |-> <<ClsOf(e.units[k][1]), e.units[k][1], e.units[k][2]>>]]

\* Normalize(from_code(c)) is the canonical data of c's meaning  (C06: canonical form)
CanonicalModel ==
    done => NZ!Core(NZ!Normalize(DataOf(Result))) = NZ!Canon(Code, Ver, Lines1)

\* to_code(Normalize(from_code(c))) means what c means  (C05), and decoding it and normalising
\* again gives the same data  (C06: stable under a round trip)
NormalizeModel ==
    done => LET n == NZ!Normalize(DataOf(Result))
                e == EN!Encode(n, Ver, KM, StrToks, 50, 20)
                c2 == CodeOfEnc(e)
                l2 == [k \in 1..Len(c2.units) |-> 1]
            IN /\ e.exc = ""
               /\ NZ!Sem(c2, Scale, l2) = NZ!Sem(Code, Scale, Lines1)
               /\ NZ!Canon(c2, Ver, l2) = NZ!Canon(Code, Ver, Lines1)
               /\ NZ!Normalize(n) = n

\* vacuity witnesses (each is expected to be VIOLATED: the model does reach such states)
NoJumpToPrefixed ==
    ~(done /\ \E j \in DOMAIN U!Instructions(units) :
          LET i == U!Instructions(units)[j] IN
          U!IsJump(i) /\ \E k \in DOMAIN U!Instructions(units) :
              U!Instructions(units)[k].n > 1 /\ U!Instructions(units)[k].off = U!JumpTarget(i, Scale))
=============================================================================
