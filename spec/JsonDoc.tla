------------------------------ MODULE JsonDoc ------------------------------
(***************************************************************************)
(* The documented JSON form of a WHOLE CodeData (C07, C12, C15): which     *)
(* keys a document has and what sits under them.  CPyConst!ToJson gives    *)
(* the form of one constant; this module gives the skeleton around it.     *)
(*                                                                         *)
(* An abstract CodeData is a record                                        *)
(*   [blocks, filename, first, name, stacksize, type, freevars, fut,       *)
(*    nested, addline, addargs]                                            *)
(* whose instructions are records [name, arg, nargs, line, lo].  Optional  *)
(* values are sequences of length 0 or 1 (TLC cannot compare an integer    *)
(* with a "none" string).  Arguments are tagged tuples:                    *)
(*   <<"noarg", n>>  <<"int", n>>  <<"jump", target, relative>>            *)
(*   <<"name", s, optidx>>  <<"varname", s, optidx>>                       *)
(*   <<"cellvar", s, optidx>>  <<"freevar", s>>                            *)
(*   <<"const", term, optidx>>  <<"code", abstract CodeData, optidx>>      *)
(* Strings are atom names of CPyConst where the string is one the harness  *)
(* knows a real value for ("sa", "ssurr", ...), literal otherwise (opcode  *)
(* names).  The rule of the format: a field whose value EQUALS its         *)
(* dataclass default is left out; everything else is present, in field     *)
(* order.  Trees are the tagged trees of CPyConst (leaf = atom name) with  *)
(* skeleton integers written in decimal: <<"i", "12">>.                    *)
(***************************************************************************)
EXTENDS Integers, Sequences, SequencesExt, FiniteSets, TLC

C == INSTANCE CPyConst

Cat(ss) == FoldLeft(LAMBDA acc, s: acc \o s, <<>>, ss)
Fld(k, present, tree) == IF present THEN << <<k, tree>> >> ELSE <<>>
Obj(fs) == <<"o", Cat(fs)>>
Arr(ts) == <<"a", ts>>
Num(n) == <<"i", ToString(n)>>
Bln(b) == <<"b", IF b THEN "true" ELSE "false">>
Null == <<"n", "none">>
Str(a) == IF a \in C!AtomNames THEN C!ToJson(C!At(a)) ELSE <<"s", a>>
Strs(ss) == Arr([i \in DOMAIN ss |-> Str(ss[i])])
Ints(ns) == Arr([i \in DOMAIN ns |-> Num(ns[i])])
Some(o) == o # <<>>
OptInt(o) == IF Some(o) THEN Num(o[1]) ELSE Null

RECURSIVE DocOf(_), ArgDoc(_)

ArgDoc(a) ==
    CASE a[1] = "noarg" -> Obj(<< Fld("_arg", a[2] # 0, Num(a[2])) >>)
      [] a[1] = "int" -> Num(a[2])
      [] a[1] = "jump" -> Obj(<< Fld("target", TRUE, Num(a[2])), Fld("relative", a[3], Bln(TRUE)) >>)
      [] a[1] \in {"name", "varname", "cellvar"} ->
            Obj(<< Fld(a[1], TRUE, Str(a[2])), Fld("_index_override", Some(a[3]), Num(a[3][1])) >>)
      [] a[1] = "freevar" -> Obj(<< Fld("freevar", TRUE, Str(a[2])) >>)
      [] a[1] = "const" ->
            Obj(<< Fld("constant", TRUE, C!ToJson(a[2])), Fld("_index_override", Some(a[3]), Num(a[3][1])) >>)
      [] a[1] = "code" ->
            Obj(<< Fld("constant", TRUE, DocOf(a[2])), Fld("_index_override", Some(a[3]), Num(a[3][1])) >>)

IsDefaultArg(a) == a[1] = "noarg" /\ a[2] = 0

InstrDoc(i) ==
    Obj(<< Fld("name", TRUE, <<"s", i.name>>),
           Fld("arg", ~IsDefaultArg(i.arg), ArgDoc(i.arg)),
           Fld("_n_args_override", Some(i.nargs), Num(i.nargs[1])),
           Fld("line_number", Some(i.line), Num(i.line[1])),
           Fld("_line_offsets_override", i.lo # <<>>, Ints(i.lo)) >>)

ArgsDoc(a) ==
    Obj(<< Fld("positional_only", a.po # <<>>, Strs(a.po)),
           Fld("positional_or_keyword", a.pk # <<>>, Strs(a.pk)),
           Fld("var_positional", Some(a.va), Str(a.va[1])),
           Fld("keyword_only", a.ko # <<>>, Strs(a.ko)),
           Fld("var_keyword", Some(a.vk), Str(a.vk[1])) >>)

NoParams(a) == a.po = <<>> /\ a.pk = <<>> /\ a.va = <<>> /\ a.ko = <<>> /\ a.vk = <<>>

\* t = <<"fn", args, optional docstring, optional kind>>
TypeDoc(t) ==
    Obj(<< Fld("args", ~NoParams(t[2]), ArgsDoc(t[2])),
           Fld("docstring", Some(t[3]), Str(t[3][1])),
           Fld("type", Some(t[4]), <<"s", t[4][1]>>) >>)

\* al = <<optional line, offsets>>
AddLineDoc(al) ==
    Obj(<< Fld("line", TRUE, OptInt(al[1])), Fld("additional_offsets", al[2] # <<>>, Ints(al[2])) >>)

DocOf(cd) ==
    Obj(<< Fld("blocks", TRUE, Arr([b \in DOMAIN cd.blocks |->
                                     Arr([k \in DOMAIN cd.blocks[b] |-> InstrDoc(cd.blocks[b][k])])])),
           Fld("filename", TRUE, Str(cd.filename)),
           Fld("first_line_number", TRUE, Num(cd.first)),
           Fld("name", TRUE, Str(cd.name)),
           Fld("stacksize", TRUE, Num(cd.stacksize)),
           Fld("type", cd.type[1] = "fn", TypeDoc(cd.type)),
           Fld("freevars", cd.freevars # <<>>, Strs(cd.freevars)),
           Fld("future_annotations", cd.fut, Bln(TRUE)),
           Fld("_nested", cd.nested, Bln(TRUE)),
           Fld("_additional_line", Some(cd.addline), AddLineDoc(cd.addline[1])),
           Fld("_additional_args", cd.addargs # <<>>, Arr([k \in DOMAIN cd.addargs |-> ArgDoc(cd.addargs[k])])) >>)

\* ---------------------------------------------------------------- properties of the form itself
Keys(o) == [i \in DOMAIN o[2] |-> o[2][i][1]]

\* no object of a document lists a key twice
RECURSIVE NoDupKeys(_)
NoDupKeys(t) ==
    CASE t[1] = "o" -> /\ Cardinality({t[2][i][1] : i \in DOMAIN t[2]}) = Len(t[2])
                       /\ \A i \in DOMAIN t[2] : NoDupKeys(t[2][i][2])
      [] t[1] = "a" -> \A i \in DOMAIN t[2] : NoDupKeys(t[2][i])
      [] OTHER -> TRUE

\* the reader's dispatch on an argument document (arg_from_json) picks the constructor the writer used
ReaderKind(t) ==
    IF t[1] = "i" THEN "int"
    ELSE LET ks == {t[2][i][1] : i \in DOMAIN t[2]} IN
         CASE "target" \in ks -> "jump"
           [] "name" \in ks -> "name"
           [] "varname" \in ks -> "varname"
           [] "constant" \in ks -> "constant"
           [] "freevar" \in ks -> "freevar"
           [] "cellvar" \in ks -> "cellvar"
           [] "_arg" \in ks -> "noarg"
           [] OTHER -> "unsupported"

WriterKind(a) == CASE a[1] \in {"const", "code"} -> "constant" [] OTHER -> a[1]
=============================================================================
