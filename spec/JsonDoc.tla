------------------------------ MODULE JsonDoc ------------------------------
(***************************************************************************)
(* The documented JSON form of a WHOLE CodeData (C07, C12, C15): which     *)
(* keys a document has and what sits under them.  CPyConst!ToJson gives    *)
(* the form of one constant; this module gives the skeleton around it.     *)
(*                                                                         *)
(* An abstract CodeData is a record                                        *)
(*   [blocks, filename, first, name, stacksize, type, freevars, fut,       *)
(*    nested, addline, addargs]                                            *)
(* whose instructions are records [name, arg, nargs, line, lo].  Optional  *)
(* values are sequences of length 0 or 1 (TLC cannot compare an integer    *)
(* with a "none" string).  Arguments are tagged tuples:                    *)
(*   <<"noarg", n>>  <<"int", n>>  <<"jump", target, relative>>            *)
(*   <<"name", s, optidx>>  <<"varname", s, optidx>>                       *)
(*   <<"cellvar", s, optidx>>  <<"freevar", s>>                            *)
(*   <<"const", term, optidx>>  <<"code", abstract CodeData, optidx>>      *)
(* Strings are atom names of CPyConst where the string is one the harness  *)
(* knows a real value for ("sa", "ssurr", ...), literal otherwise (opcode  *)
(* names).  The rule of the format: a field whose value EQUALS its         *)
(* dataclass default is left out; everything else is present, in field     *)
(* order.  Trees are the tagged trees of CPyConst (leaf = atom name) with  *)
(* skeleton integers written in decimal: <<"i", "12">>.                    *)
(***************************************************************************)
EXTENDS Integers, Sequences, SequencesExt, FiniteSets, TLC

C == INSTANCE CPyConst

Cat(ss) == FoldLeft(LAMBDA acc, s: acc \o s, <<>>, ss)
Fld(k, present, tree) == IF present THEN << <<k, tree>> >> ELSE <<>>
Obj(fs) == <<"o", Cat(fs)>>
Arr(ts) == <<"a", ts>>
Num(n) == <<"i", ToString(n)>>
Bln(b) == <<"b", IF b THEN "true" ELSE "false">>
Null == <<"n", "none">>
Str(a) == IF a \in C!AtomNames THEN C!ToJson(C!At(a)) ELSE <<"s", a>>
Strs(ss) == Arr([i \in DOMAIN ss |-> Str(ss[i])])
Ints(ns) == Arr([i \in DOMAIN ns |-> Num(ns[i])])
Some(o) == o # <<>>
OptInt(o) == IF Some(o) THEN Num(o[1]) ELSE Null

RECURSIVE DocOf(_), ArgDoc(_)

ArgDoc(a) ==
    CASE a[1] = "noarg" -> Obj(<< Fld("_arg", a[2] # 0, Num(a[2])) >>)
      [] a[1] = "int" -> Num(a[2])
      [] a[1] = "jump" -> Obj(<< Fld("target", TRUE, Num(a[2])), Fld("relative", a[3], Bln(TRUE)) >>)
      [] a[1] \in {"name", "varname", "cellvar"} ->
            Obj(<< Fld(a[1], TRUE, Str(a[2])), Fld("_index_override", Some(a[3]), Num(a[3][1])) >>)
      [] a[1] = "freevar" -> Obj(<< Fld("freevar", TRUE, Str(a[2])) >>)
      [] a[1] = "const" ->
            Obj(<< Fld("constant", TRUE, C!ToJson(a[2])), Fld("_index_override", Some(a[3]), Num(a[3][1])) >>)
      [] a[1] = "code" ->
            Obj(<< Fld("constant", TRUE, DocOf(a[2])), Fld("_index_override", Some(a[3]), Num(a[3][1])) >>)

IsDefaultArg(a) == a[1] = "noarg" /\ a[2] = 0

InstrDoc(i) ==
    Obj(<< Fld("name", TRUE, <<"s", i.name>>),
           Fld("arg", ~IsDefaultArg(i.arg), ArgDoc(i.arg)),
           Fld("_n_args_override", Some(i.nargs), Num(i.nargs[1])),
           Fld("line_number", Some(i.line), Num(i.line[1])),
           Fld("_line_offsets_override", i.lo # <<>>, Ints(i.lo)) >>)

ArgsDoc(a) ==
    Obj(<< Fld("positional_only", a.po # <<>>, Strs(a.po)),
           Fld("positional_or_keyword", a.pk # <<>>, Strs(a.pk)),
           Fld("var_positional", Some(a.va), Str(a.va[1])),
           Fld("keyword_only", a.ko # <<>>, Strs(a.ko)),
           Fld("var_keyword", Some(a.vk), Str(a.vk[1])) >>)

NoParams(a) == a.po = <<>> /\ a.pk = <<>> /\ a.va = <<>> /\ a.ko = <<>> /\ a.vk = <<>>

\* t = <<"fn", args, optional docstring, optional kind>>
TypeDoc(t) ==
    Obj(<< Fld("args", ~NoParams(t[2]), ArgsDoc(t[2])),
           Fld("docstring", Some(t[3]), Str(t[3][1])),
           Fld("type", Some(t[4]), <<"s", t[4][1]>>) >>)

\* al = <<optional line, offsets>>
AddLineDoc(al) ==
    Obj(<< Fld("line", TRUE, OptInt(al[1])), Fld("additional_offsets", al[2] # <<>>, Ints(al[2])) >>)

DocOf(cd) ==
    Obj(<< Fld("blocks", TRUE, Arr([b \in DOMAIN cd.blocks |->
                                     Arr([k \in DOMAIN cd.blocks[b] |-> InstrDoc(cd.blocks[b][k])])])),
           Fld("filename", TRUE, Str(cd.filename)),
           Fld("first_line_number", TRUE, Num(cd.first)),
           Fld("name", TRUE, Str(cd.name)),
           Fld("stacksize", TRUE, Num(cd.stacksize)),
           Fld("type", cd.type[1] = "fn", TypeDoc(cd.type)),
           Fld("freevars", cd.freevars # <<>>, Strs(cd.freevars)),
           Fld("future_annotations", cd.fut, Bln(TRUE)),
           Fld("_nested", cd.nested, Bln(TRUE)),
           Fld("_additional_line", Some(cd.addline), AddLineDoc(cd.addline[1])),
           Fld("_additional_args", cd.addargs # <<>>, Arr([k \in DOMAIN cd.addargs |-> ArgDoc(cd.addargs[k])])) >>)

\* ---------------------------------------------------------------- properties of the form itself
Keys(o) == [i \in DOMAIN o[2] |-> o[2][i][1]]

\* no object of a document lists a key twice
RECURSIVE NoDupKeys(_)
NoDupKeys(t) ==
    CASE t[1] = "o" -> /\ Cardinality({t[2][i][1] : i \in DOMAIN t[2]}) = Len(t[2])
                       /\ \A i \in DOMAIN t[2] : NoDupKeys(t[2][i][2])
      [] t[1] = "a" -> \A i \in DOMAIN t[2] : NoDupKeys(t[2][i])
      [] OTHER -> TRUE

\* the reader's dispatch on an argument document (arg_from_json) picks the constructor the writer used
ReaderKind(t) ==
    IF t[1] = "i" THEN "int"
    ELSE LET ks == {t[2][i][1] : i \in DOMAIN t[2]} IN
         CASE "target" \in ks -> "jump"
           [] "name" \in ks -> "name"
           [] "varname" \in ks -> "varname"
           [] "constant" \in ks -> "constant"
           [] "freevar" \in ks -> "freevar"
           [] "cellvar" \in ks -> "cellvar"
           [] "_arg" \in ks -> "noarg"
           [] OTHER -> "unsupported"

WriterKind(a) == CASE a[1] \in {"const", "code"} -> "constant" [] OTHER -> a[1]

\* ---------------------------------------------------------------- the reader (from_json_data), as a function on trees
\* Mirrors _json_data.py: keys that are absent take the dataclass default; an argument document is dispatched on
\* its keys in the reader's order (ReaderKind); a constant document on int, float, string, type, real, bytes,
\* frozenset in that order; a dict under "constant" that has a "filename" key is a nested CodeData.
HasKey(o, k) == \E i \in DOMAIN o[2] : o[2][i][1] = k
GetK(o, k) == o[2][CHOOSE i \in DOMAIN o[2] : o[2][i][1] = k][2]
Unprefix(pre, s) == CHOOSE a \in C!AtomNames : (pre \o a) = s
NumRange == -300..400                      \* TLC cannot parse a string: the integers of the bounded model
NumOf(t) == CHOOSE n \in NumRange : ToString(n) = t[2]
StrOf(t) == IF t[1] = "s" THEN t[2] ELSE Unprefix("repr:", GetK(t, "string")[2])
FloatAtomOf(t) ==
    IF t[1] = "f" THEN t[2]
    ELSE LET v == GetK(t, "float")[2] IN CASE v = "nan" -> "nan" [] v = "inf" -> "inf" [] OTHER -> "ninf"

RECURSIVE ConstOf(_)
ConstOf(t) ==
    CASE t[1] \in {"i", "b", "f", "s"} -> C!At(t[2])
      [] t[1] = "n" -> C!At("none")
      [] t[1] = "a" -> <<"tuple", [i \in DOMAIN t[2] |-> ConstOf(t[2][i])]>>
      [] OTHER ->
            CASE HasKey(t, "int") -> C!At(GetK(t, "int")[2])
              [] HasKey(t, "float") -> C!At(FloatAtomOf(t))
              [] HasKey(t, "string") -> C!At(StrOf(t))
              [] HasKey(t, "type") -> C!At("ellipsis")
              [] HasKey(t, "real") -> <<"complex", FloatAtomOf(GetK(t, "real")), FloatAtomOf(GetK(t, "imag"))>>
              [] HasKey(t, "bytes") -> C!At(Unprefix("b64:", GetK(t, "bytes")[2]))
              [] OTHER -> <<"frozenset", {ConstOf(GetK(t, "frozenset")[2][i]) : i \in DOMAIN GetK(t, "frozenset")[2]}>>

OptNum(o, k) == IF HasKey(o, k) THEN <<NumOf(GetK(o, k))>> ELSE <<>>
OptStr(o, k) == IF HasKey(o, k) THEN <<StrOf(GetK(o, k))>> ELSE <<>>
StrsOf(o, k) == IF HasKey(o, k) THEN [i \in DOMAIN GetK(o, k)[2] |-> StrOf(GetK(o, k)[2][i])] ELSE <<>>
NumsOf(o, k) == IF HasKey(o, k) THEN [i \in DOMAIN GetK(o, k)[2] |-> NumOf(GetK(o, k)[2][i])] ELSE <<>>

RECURSIVE FromDoc(_), ArgOf(_)

ArgOf(t) ==
    LET kind == ReaderKind(t) IN
    CASE kind = "int" -> <<"int", NumOf(t)>>
      [] kind = "jump" -> <<"jump", NumOf(GetK(t, "target")), HasKey(t, "relative") /\ GetK(t, "relative")[2] = "true">>
      [] kind \in {"name", "varname", "cellvar"} -> <<kind, StrOf(GetK(t, kind)), OptNum(t, "_index_override")>>
      [] kind = "freevar" -> <<"freevar", StrOf(GetK(t, "freevar"))>>
      [] kind = "constant" ->
            LET c == GetK(t, "constant") IN
            IF c[1] = "o" /\ HasKey(c, "filename")
            THEN <<"code", FromDoc(c), OptNum(t, "_index_override")>>
            ELSE <<"const", ConstOf(c), OptNum(t, "_index_override")>>
      [] kind = "noarg" -> <<"noarg", NumOf(GetK(t, "_arg"))>>
      [] OTHER -> <<"unsupported">>

InstrOf(t) ==
    [name |-> GetK(t, "name")[2],
     arg |-> IF HasKey(t, "arg") THEN ArgOf(GetK(t, "arg")) ELSE <<"noarg", 0>>,
     nargs |-> OptNum(t, "_n_args_override"), line |-> OptNum(t, "line_number"), lo |-> NumsOf(t, "_line_offsets_override")]

TypeOf(o) ==
    IF ~HasKey(o, "type") THEN <<"none">>
    ELSE LET t == GetK(o, "type")
             a == IF HasKey(t, "args") THEN GetK(t, "args") ELSE <<"o", <<>>>>
         IN <<"fn", [po |-> StrsOf(a, "positional_only"), pk |-> StrsOf(a, "positional_or_keyword"),
                     va |-> OptStr(a, "var_positional"), ko |-> StrsOf(a, "keyword_only"), vk |-> OptStr(a, "var_keyword")],
              OptStr(t, "docstring"), IF HasKey(t, "type") THEN <<GetK(t, "type")[2]>> ELSE <<>>>>

FromDoc(o) ==
    [blocks |-> [b \in DOMAIN GetK(o, "blocks")[2] |->
                    [k \in DOMAIN GetK(o, "blocks")[2][b][2] |-> InstrOf(GetK(o, "blocks")[2][b][2][k])]],
     filename |-> StrOf(GetK(o, "filename")), first |-> NumOf(GetK(o, "first_line_number")),
     name |-> StrOf(GetK(o, "name")), stacksize |-> NumOf(GetK(o, "stacksize")),
     type |-> TypeOf(o), freevars |-> StrsOf(o, "freevars"),
     fut |-> HasKey(o, "future_annotations") /\ GetK(o, "future_annotations")[2] = "true",
     nested |-> HasKey(o, "_nested") /\ GetK(o, "_nested")[2] = "true",
     addline |-> IF HasKey(o, "_additional_line")
                 THEN LET al == GetK(o, "_additional_line") IN
                      << << IF GetK(al, "line")[1] = "n" THEN <<>> ELSE <<NumOf(GetK(al, "line"))>>, NumsOf(al, "additional_offsets") >> >>
                 ELSE <<>>,
     addargs |-> IF HasKey(o, "_additional_args")
                 THEN [k \in DOMAIN GetK(o, "_additional_args")[2] |-> ArgOf(GetK(o, "_additional_args")[2][k])] ELSE <<>>]
=============================================================================
