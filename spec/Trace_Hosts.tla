------------------------------ MODULE Trace_Hosts ------------------------------
(***************************************************************************)
(* Trace validation for C15: every event is one document produced on one   *)
(* interpreter and taken through an operation sequence on another; the     *)
(* consumer records whether the final document equals the producer's raw   *)
(* and normalised documents (canonical comparison: frozenset element lists *)
(* sorted).  The expected one is recomputed here from the operations.      *)
(***************************************************************************)
EXTENDS Integers, Sequences, SequencesExt, FiniteSets, TLC, TLCExt, Json, IOUtils

Tr == ndJsonDeserialize(IOEnv.TRACE_FILE)

VARIABLES l
vars == <<l>>

Normalised(ops) == \E i \in DOMAIN ops : ops[i] = "Normalize"

Clauses(e) ==
    << <<"P15.noraise", e.exc = "">>,
       <<"P15.same", e.exc = "" => (IF Normalised(e.ops) THEN e.same_norm ELSE e.same_raw)>>,
       <<"P15.hosts_agree_on_normalize", (e.exc = "" /\ Normalised(e.ops)) => e.same_norm>> >>

Failing(e) ==
    LET cs == Clauses(e)
    IN SelectSeq([i \in DOMAIN cs |-> IF cs[i][2] THEN "" ELSE cs[i][1]], LAMBDA x: x # "")

Init == l = 1
Step == l <= Len(Tr) /\ l' = l + 1
Spec == Init /\ [][Step]_vars

EventChecked ==
    (l > 1) => LET bad == Failing(Tr[l - 1]) IN
        (bad # <<>>) => PrintT("@@" \o ToJson([id |-> Tr[l - 1].id, bad |-> bad]) \o "@@")

TraceAccepted == TLCGet("stats").diameter - 1 = Len(Tr)
=============================================================================
