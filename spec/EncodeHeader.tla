---------------------------- MODULE EncodeHeader ----------------------------
(***************************************************************************)
(* The header half of the library's encoder (code_data/_code_data.py       *)
(* from_code_data, code_data/_args.py args_to_input, code_data/            *)
(* _flags_data.py from_flags_data): flags and argument counts are          *)
(* re-derived from the data model, they are not stored.                    *)
(*                                                                         *)
(* h is the decoded header in the form Decode!DecodeHeader returns         *)
(* (is_fn, args, fn_type, annotations, nested); free/cell say whether the  *)
(* code object has free or cell variables.                                 *)
(***************************************************************************)
EXTENDS Integers, Sequences, FiniteSets

V == INSTANCE Versions

\* from_flags_data
FromFlagsData(ver, names) == {V!FlagBit(ver, n) : n \in names}

\* args_to_varnames: the order in which the parameters open co_varnames
ArgsToVarnames(a) == a.po \o a.pk \o a.ko \o a.va \o a.vk

EncodeHeader(h, ver, nofree) ==
    LET a == h.args
        names == (IF h.is_fn THEN {"NEWLOCALS", "OPTIMIZED"} ELSE {})
                 \cup (IF h.is_fn /\ h.fn_type # "" THEN {h.fn_type} ELSE {})
                 \cup (IF h.is_fn /\ a.va # <<>> THEN {"VARARGS"} ELSE {})
                 \cup (IF h.is_fn /\ a.vk # <<>> THEN {"VARKEYWORDS"} ELSE {})
                 \cup (IF nofree THEN {"NOFREE"} ELSE {})
                 \cup (IF h.annotations THEN {"annotations"} ELSE {})
                 \cup (IF h.nested THEN {"NESTED"} ELSE {})
        posonly == IF h.is_fn THEN Len(a.po) ELSE 0
    IN [exc |-> IF ver = "37" /\ posonly > 0 THEN "NotImplementedError" ELSE "",
        flags |-> FromFlagsData(ver, names),
        argcount |-> IF h.is_fn THEN Len(a.po) + Len(a.pk) ELSE 0,
        posonly |-> posonly,
        kwonly |-> IF h.is_fn THEN Len(a.ko) ELSE 0,
        params |-> IF h.is_fn THEN ArgsToVarnames(a) ELSE <<>>]

=============================================================================
