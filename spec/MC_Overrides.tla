----------------------------- MODULE MC_Overrides -----------------------------
(***************************************************************************)
(* Bounded model for the last clause of C03: private position overrides    *)
(* that are inconsistent (they leave a gap in a table, or two different     *)
(* values claim one slot) must make to_code raise; they must never yield    *)
(* an operand that indexes outside its table or designates another value.  *)
(*                                                                         *)
(* A state is a straight-line program of up to MaxInstr LOAD_CONST          *)
(* instructions, each with a constant from {1, True, 2} (1 and True are     *)
(* equal under Python's == but are different constants) and an override     *)
(* from {-2 (a negative slot), -1 (none)} \cup 0..MaxOvr.  The reference encoder (Encode.tla) is run on  *)
(* it; OverridesSafe says: it raises, or every operand is inside the table  *)
(* and the table entry is exactly the given constant.  Every state is       *)
(* printed and replayed on the real library (hand-built CodeData).         *)
(***************************************************************************)
EXTENDS Integers, Sequences, SequencesExt, FiniteSets, TLC, Json

CONSTANTS MaxInstr, MaxOvr, Emit

EN == INSTANCE Encode

VARIABLES prog
vars == <<prog>>

Consts == {50, 51, 52}                     \* 1, True, 2
KM == (50 :> <<150, 900>>) @@ (51 :> <<151, 900>>) @@ (52 :> <<152, 902>>) @@ (59 :> <<159, 909>>)

Init == prog = <<>>
Add(c, o) == Len(prog) < MaxInstr /\ prog' = Append(prog, <<c, o>>)
\* -1 is "no override"; -2 is a real, negative position (hand-edited data): never a valid slot
Next == \E c \in Consts, o \in -2..MaxOvr : Add(c, o)
Spec == Init /\ [][Next]_vars

Data ==
    [instrs |-> [i \in DOMAIN prog |-> <<"LOAD_CONST", "K", prog[i][1], prog[i][2], -1, 1, <<>>>>]
                \o <<<<"RETURN_VALUE", "0", 0, -1, -1, 1, <<>>>>>>,
     block_starts |-> <<0>>, additional |-> <<>>, addline |-> <<>>,
     is_fn |-> FALSE, args |-> [po |-> <<>>, pk |-> <<>>, va |-> <<>>, ko |-> <<>>, vk |-> <<>>],
     doc |-> <<>>, fn_type |-> "", annotations |-> FALSE, nested |-> FALSE, freevars |-> <<>>, first |-> 1]

OverridesSafe ==
    LET e == EN!Encode(Data, "38", KM, {}, 59, 8) IN
    /\ Emit => PrintT("@@" \o ToJson([prog |-> prog, raises |-> e.exc # ""]) \o "@@")
    /\ (Len(prog) >= 1) =>
         (e.exc # ""
          \/ \A i \in DOMAIN prog :
                LET arg == e.units[i][2] IN arg + 1 \in DOMAIN e.consts /\ e.consts[arg + 1] = prog[i][1])
=============================================================================
