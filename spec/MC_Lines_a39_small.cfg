SPECIFICATION Spec
CONSTANTS
  Asm = "a39"
  MaxRuns = 2
  Sizes = {1, 2, 127, 128, 255, 256}
  LineVals <- LV_quick
  Removal = TRUE
  Emit = TRUE
INVARIANT C10Model
