------------------------------ MODULE Versions ------------------------------
(***************************************************************************)
(* What differs between the supported interpreters, as far as the library  *)
(* and the properties are concerned.  ver is "37", "38", "39" or "310".    *)
(* The flag table is compared with each interpreter's own dis / __future__ *)
(* tables by the harness (environment binding, harness/c11.py).            *)
(***************************************************************************)
EXTENDS Integers, FiniteSets

Vers == {"37", "38", "39", "310"}

\* jump operands count code units from 3.10 on, bytes before
JumpScale(ver) == IF ver = "310" THEN 2 ELSE 1
UseLinetable(ver) == ver = "310"
HasPosOnly(ver) == ver # "37"

CompilerFlags ==
    [OPTIMIZED |-> 0, NEWLOCALS |-> 1, VARARGS |-> 2, VARKEYWORDS |-> 3, NESTED |-> 4,
     GENERATOR |-> 5, NOFREE |-> 6, COROUTINE |-> 7, ITERABLE_COROUTINE |-> 8,
     ASYNC_GENERATOR |-> 9]

\* __future__ flags (nested_scopes = 0x10 coincides with NESTED, generators = 0: both ignored
\* by the library); they moved up by four bits in 3.8
FutureFlags37 ==
    [division |-> 13, absolute_import |-> 14, with_statement |-> 15, print_function |-> 16,
     unicode_literals |-> 17, barry_as_FLUFL |-> 18, generator_stop |-> 19, annotations |-> 20]
FutureFlags38 ==
    [division |-> 17, absolute_import |-> 18, with_statement |-> 19, print_function |-> 20,
     unicode_literals |-> 21, barry_as_FLUFL |-> 22, generator_stop |-> 23, annotations |-> 24]

FutureFlags(ver) == IF ver = "37" THEN FutureFlags37 ELSE FutureFlags38

FlagNames(ver) == DOMAIN CompilerFlags \cup DOMAIN FutureFlags(ver)

FlagBit(ver, name) ==
    IF name \in DOMAIN CompilerFlags THEN CompilerFlags[name] ELSE FutureFlags(ver)[name]

KnownBits(ver) == {FlagBit(ver, n) : n \in FlagNames(ver)}

=============================================================================
