-------------------------------- MODULE MC_Api --------------------------------
(* Bounded instance of Api.tla: all histories of length <= MaxLen; complete histories are printed
   for replay on real objects. *)
EXTENDS Api, Json

CONSTANTS MaxLen, Emit

Bounded == Len(hist) <= MaxLen
EmitHistory == (Emit /\ Len(hist) = MaxLen) => PrintT("@@" \o ToJson(hist) \o "@@")
=============================================================================
