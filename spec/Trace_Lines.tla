----------------------------- MODULE Trace_Lines -----------------------------
(***************************************************************************)
(* Tr validation for the line-table codec (C10; reused by C01).         *)
(*                                                                         *)
(* One event = one execution of the real library on one line table, with   *)
(* the projected value after every stage, next to CPython's own reading    *)
(* of a real code object that carries the table.  The trace specification  *)
(* replays the table through Lines.tla / CPyLines.tla and requires         *)
(*   ENV.*   the environment model to agree with the real interpreter      *)
(*           (a failure here is a machinery error, never a violation),     *)
(*   P.*     the property's own clauses on the recorded values,            *)
(*   S.*     each stage to be inverted by its partner - stricter than the  *)
(*           property (reported in the evidence, never a violation),       *)
(*   M.*     the library's intermediate values to be the ones the          *)
(*           specification computes (binding of Lines.tla to the code).    *)
(* Validation is total: a failing clause is reported and the trace goes on, *)
(* so one bad event never hides the ones behind it.                        *)
(***************************************************************************)
EXTENDS Integers, Sequences, SequencesExt, TLC, TLCExt, Json, IOUtils

L == INSTANCE Lines
C == INSTANCE CPyLines

Tr == ndJsonDeserialize(IOEnv.TRACE_FILE)

VARIABLES l
vars == <<l>>

Clauses(e) ==
    LET lt == e.lt
        tab == L!BytesToItems(e.table)
        coll == L!Collapse(tab, lt)
        map == L!ItemsToMapping(coll, 2 * e.ncode, lt)
        coll2 == L!MappingToItems(map, lt)
        exp2 == L!Expand(coll2, lt)
    IN  <<
        \* --- environment binding
        <<"ENV.reader", e.has_pub => C!ReadAll(tab, e.ncode, lt) = e.cpy>>,
        \* --- the property
        <<"P.noraise", e.exc = "" /\ (e.has_pub => e.pub_exc = "")>>,
        <<"P.lines", (e.has_pub /\ e.pub_exc = "") => e.pub_lines = e.cpy>>,
        <<"P.bytes", (e.has_pub /\ e.pub_exc = "") => e.pub_bytes2 = e.table>>,
        <<"P.lines.stage", (e.has_pub /\ e.exc = "") => SubSeq(e.lines, 1, e.ncode) = e.cpy>>,
        <<"P.bytes.stage", e.exc = "" => e.bytes2 = e.table>>,
        <<"S.inverse.bytes", e.exc = "" => e.bytes1 = e.table>>,
        <<"S.inverse.expand", e.exc = "" => e.expanded1 = e.items>>,
        <<"S.inverse.mapping", e.exc = "" => e.collapsed2 = e.collapsed>>,
        \* --- binding of the specification's stages to the code
        <<"M.items", e.exc = "" => e.items = tab>>,
        <<"M.collapsed", e.exc = "" => e.collapsed = coll>>,
        <<"M.lines", e.exc = "" => e.lines = map.lines>>,
        <<"M.addl", e.exc = "" => e.addl = map.addl>>,
        <<"M.collapsed2", e.exc = "" => e.collapsed2 = coll2>>,
        <<"M.expanded2", e.exc = "" => e.expanded2 = exp2>>,
        <<"M.bytes2", e.exc = "" => e.bytes2 = L!ItemsToBytes(exp2)>>
        >>

Failing(e) == LET cs == Clauses(e) IN SelectSeq([i \in DOMAIN cs |-> IF cs[i][2] THEN "" ELSE cs[i][1]], LAMBDA x: x # "")

Init == l = 1

\* consuming an event
Step == l <= Len(Tr) /\ l' = l + 1

Spec == Init /\ [][Step]_vars

\* The clauses are evaluated in an invariant (not in the action) because TLC caches LET-bound
\* values only while evaluating a state predicate; the event checked in state l is Tr[l-1].
\* Always TRUE: a failing clause is printed, never a reason to stop (total trace validation).
EventChecked ==
    (l > 1) => LET bad == Failing(Tr[l - 1]) IN
        (bad # <<>>) => PrintT("@@" \o ToJson([id |-> Tr[l - 1].id, bad |-> bad]) \o "@@")

TraceAccepted == TLCGet("stats").diameter - 1 = Len(Tr)
=============================================================================
