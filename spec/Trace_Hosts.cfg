SPECIFICATION Spec
INVARIANT EventChecked
POSTCONDITION TraceAccepted
CHECK_DEADLOCK FALSE
