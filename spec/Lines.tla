------------------------------- MODULE Lines -------------------------------
(***************************************************************************)
(* The library's line-table codec (code_data/_line_mapping.py), stage by   *)
(* stage, transcribed as operators.  One operator per Python function;     *)
(* loops are left folds whose accumulator is the Python loop state.        *)
(*                                                                         *)
(*   bytes  --BytesToItems-->  expanded items  --Collapse-->  collapsed    *)
(*          --ItemsToMapping--> LineMapping                                *)
(*   and the three inverses MappingToItems, Expand, ItemsToBytes.          *)
(*                                                                         *)
(* Items are pairs <<bytecode_offset, line_offset>>.  `None` stands for    *)
(* Python's None (3.10 "no line"); it is an integer far outside every      *)
(* range that is explored so that items stay comparable in TLC.            *)
(* A LineMapping is [lines |-> Seq, addl |-> Seq(Seq)], indexed by code    *)
(* unit (offset 2*(i-1)); lines[i] = Absent means "no key in the dict".    *)
(***************************************************************************)
EXTENDS Integers, Sequences, SequencesExt

None == -99999
Absent == -88888

ToSigned(x) == IF x >= 128 THEN x - 256 ELSE x
ToByte(l) == l % 256

Rep(n, e) == [i \in 1..n |-> e]

BytesToItems(bs) ==
    [i \in 1..(Len(bs) \div 2) |-> <<bs[2*i-1], ToSigned(bs[2*i])>>]

ItemsToBytes(items) ==
    [i \in 1..(2 * Len(items)) |->
        IF i % 2 = 1 THEN items[(i+1) \div 2][1] ELSE ToByte(items[i \div 2][2])]

(***************************************************************************)
(* collapse_items: walk from the end to the beginning; when the pair       *)
(* (prev, item) looks like the two halves of a split entry, delete item    *)
(* and add it to prev.  Transcribed with its exact tests.                  *)
(***************************************************************************)
CollapseInit(items, lt) ==
    [i \in DOMAIN items |->
        <<items[i][1], IF lt /\ items[i][2] = -128 THEN None ELSE items[i][2]>>]

BytecodeSplit(prev, item, lt) ==
    /\ (IF lt THEN item ELSE prev)[2] = 0
    /\ prev[1] >= (IF lt THEN 254 ELSE 255)
    /\ item[1] # 0
    \* a run without a line continues without a line ("fix:" commit 2)
    /\ ~(lt /\ prev[2] = None)

LineSplit(prev, item, lt) ==
    /\ (IF lt THEN prev ELSE item)[1] = 0
    /\ prev[2] # None
    /\ (prev[2] >= 127 \/ prev[2] <= (IF lt THEN -127 ELSE -128))
    /\ item[2] # 0
    \* the remainder of a split has the sign of the pieces before it ("fix:" commit 1)
    /\ (item[2] = None \/ ((item[2] > 0) <=> (prev[2] > 0)))

MergeItems(prev, item) ==
    <<prev[1] + item[1],
      IF item[2] # 0 /\ item[2] # None THEN prev[2] + item[2] ELSE prev[2]>>

\* one iteration of the backward loop at (1-based) position i >= 2
CollapseStep(cur, i, lt) ==
    IF BytecodeSplit(cur[i-1], cur[i], lt) \/ LineSplit(cur[i-1], cur[i], lt)
    THEN [j \in 1..(Len(cur) - 1) |->
            IF j < i - 1 THEN cur[j]
            ELSE IF j = i - 1 THEN MergeItems(cur[i-1], cur[i])
            ELSE cur[j+1]]
    ELSE cur

Collapse(items, lt) ==
    LET n == Len(items)
        \* positions n, n-1, ..., 2
        order == [k \in 1..(IF n >= 2 THEN n - 1 ELSE 0) |-> n + 1 - k]
    IN FoldLeft(LAMBDA cur, i: CollapseStep(cur, i, lt), CollapseInit(items, lt), order)

(***************************************************************************)
(* expand_items: the inverse direction.  The two inner helpers are         *)
(* transcribed as state transformers on [b, l, out, extra].                *)
(***************************************************************************)
RECURSIVE ExpandBytecode(_, _), ExpandLinePos(_, _), ExpandLineNeg(_, _)

ExpandBytecode(s, lt) ==
    LET maxb == IF lt THEN 254 ELSE 255 IN
    IF s.b > maxb
    THEN ExpandBytecode(
            [s EXCEPT !.out = Append(s.out,
                                <<maxb, IF lt THEN (IF s.l = None THEN -128 ELSE s.l) ELSE 0>>),
                      !.l = IF lt /\ s.l # None THEN 0 ELSE s.l,
                      !.b = s.b - maxb,
                      !.extra = TRUE], lt)
    ELSE s

ExpandLinePos(s, lt) ==
    IF s.l # None /\ s.l > 127
    THEN ExpandLinePos(
            [s EXCEPT !.out = Append(s.out, <<IF lt THEN 0 ELSE s.b, 127>>),
                      !.l = s.l - 127,
                      !.b = IF lt THEN s.b ELSE 0,
                      !.extra = TRUE], lt)
    ELSE s

ExpandLineNeg(s, lt) ==
    LET minl == IF lt THEN -127 ELSE -128 IN
    IF s.l # None /\ s.l < minl
    THEN ExpandLineNeg(
            [s EXCEPT !.out = Append(s.out, <<IF lt THEN 0 ELSE s.b, minl>>),
                      !.l = s.l - minl,
                      !.b = IF lt THEN s.b ELSE 0,
                      !.extra = TRUE], lt)
    ELSE s

ExpandLine(s, lt) == ExpandLineNeg(ExpandLinePos(s, lt), lt)

ExpandOne(out, item, lt) ==
    LET s0 == [b |-> item[1], l |-> item[2], out |-> out, extra |-> FALSE]
        s1 == IF lt THEN ExpandBytecode(ExpandLine(s0, lt), lt)
                    ELSE ExpandLine(ExpandBytecode(s0, lt), lt)
    IN IF s1.l # 0 \/ s1.b # 0 \/ ~s1.extra
       THEN Append(s1.out, <<s1.b, IF s1.l = None THEN -128 ELSE s1.l>>)
       ELSE s1.out

Expand(items, lt) ==
    FoldLeft(LAMBDA out, item: ExpandOne(out, item, lt), <<>>, items)

(***************************************************************************)
(* items_to_mapping                                                        *)
(***************************************************************************)
SumB(items) == FoldLeft(LAMBDA a, it: a + it[1], 0, items)

\* 3.10 form: each item covers the units [off, off + b)
MappingLT(items) ==
    LET step(s, it) ==
            LET line == IF it[2] = None THEN s.line ELSE s.line + it[2]
                n == (it[1] + 1) \div 2    \* len(range(off, off+b, 2))
            IN [line |-> line,
                lines |-> s.lines \o Rep(n, IF it[2] = None THEN None ELSE line)]
        r == FoldLeft(step, [line |-> 0, lines |-> <<>>], items)
    IN [lines |-> r.lines, addl |-> Rep(Len(r.lines), <<>>)]

\* lnotab form: the `while` loop over bytecode offsets (one fold step per offset),
\* with the inner `while` that swallows zero-width items.
RECURSIVE TakeZeroWidth(_, _)
TakeZeroWidth(s, items) ==
    IF s.cur <= Len(items) /\ items[s.cur][1] = 0
    THEN TakeZeroWidth([s EXCEPT !.add = Append(s.add, items[s.cur][2]),
                                 !.line = s.line + items[s.cur][2],
                                 !.cur = s.cur + 1], items)
    ELSE s

MappingLnotabStep(s, items, off) ==
    IF s.cur <= Len(items)
    THEN LET it == items[s.cur]
             adv == (off - s.lastb) = it[1]
             s1 == IF adv
                   THEN [s EXCEPT !.line = s.line + it[2], !.cur = s.cur + 1, !.lastb = off,
                                  !.add = IF it[2] = 0 THEN <<0>> ELSE <<>>]
                   ELSE [s EXCEPT !.add = <<>>]
             s2 == TakeZeroWidth(s1, items)
         IN [s2 EXCEPT !.lines = Append(s.lines, s2.line), !.addl = Append(s.addl, s2.add)]
    ELSE [s EXCEPT !.lines = Append(s.lines, s.line), !.addl = Append(s.addl, <<>>), !.add = <<>>]

\* number of iterations of `while bytecode_offset < max_offset or cur < len(items)`
\* (terminates only for even deltas, which is all the compilers emit)
LnotabIterations(items, maxoff) ==
    LET tot == SumB(items)
        a == (maxoff + 1) \div 2
        b == IF Len(items) = 0 THEN 0 ELSE tot \div 2 + 1
    IN IF a > b THEN a ELSE b

MappingLnotab(items, maxoff) ==
    LET n == LnotabIterations(items, maxoff)
        r == FoldLeft(LAMBDA s, k: MappingLnotabStep(s, items, 2 * (k - 1)),
                      [cur |-> 1, lastb |-> 0, line |-> 0, lines |-> <<>>, addl |-> <<>>, add |-> <<>>],
                      [k \in 1..n |-> k])
    IN [lines |-> r.lines, addl |-> r.addl]

ItemsToMapping(items, maxoff, lt) ==
    IF lt THEN MappingLT(items) ELSE MappingLnotab(items, maxoff)

(***************************************************************************)
(* mapping_to_items                                                        *)
(***************************************************************************)
\* 3.10: sections of equal line.  State mirrors the Python locals.
ItemsFromMappingLT(m) ==
    LET n == Len(m.lines)
        step(s, k) ==
            IF m.lines[k] = Absent THEN s ELSE
            LET off == 2 * (k - 1)
                line == m.lines[k]
                s1 == IF s.secb = Absent
                      THEN [s EXCEPT !.secb = off, !.secline = line,
                                     !.last = IF line # None THEN line ELSE s.last,
                                     !.diff = line]
                      ELSE s
                s2 == IF line # s1.secline
                      THEN [s1 EXCEPT !.items = Append(s1.items, <<off - s1.secb, s1.diff>>),
                                      !.secb = off,
                                      !.diff = IF line = None THEN None ELSE line - s1.last,
                                      !.secline = line,
                                      !.last = IF line # None THEN line ELSE s1.last]
                      ELSE s1
            IN [s2 EXCEPT !.lastoff = off]
        r == FoldLeft(step,
                      [items |-> <<>>, secb |-> Absent, secline |-> Absent, last |-> 0,
                       diff |-> Absent, lastoff |-> Absent],
                      [k \in 1..n |-> k])
    IN IF r.lastoff = Absent THEN <<>>   \* (the Python code raises UnboundLocalError; never reached)
       ELSE Append(r.items, <<r.lastoff + 2 - r.secb, r.diff>>)

SumSeq(s) == FoldLeft(LAMBDA a, x: a + x, 0, s)

ItemsFromMappingLnotab(m) ==
    LET n == Len(m.lines)
        step(s, k) ==
            IF m.lines[k] = Absent THEN s ELSE
            LET off == 2 * (k - 1)
                add == m.addl[k]
                first == m.lines[k] - s.lastline - SumSeq(add)
                all == IF first # 0 THEN <<first>> \o add ELSE add
                emit(t, lo) == [t EXCEPT !.items = Append(t.items, <<off - t.lastb, lo>>), !.lastb = off]
                s1 == FoldLeft(emit, s, all)
            IN [s1 EXCEPT !.lastline = m.lines[k]]
        r == FoldLeft(step, [items |-> <<>>, lastb |-> 0, lastline |-> 0], [k \in 1..n |-> k])
    IN r.items

MappingToItems(m, lt) ==
    IF lt THEN ItemsFromMappingLT(m) ELSE ItemsFromMappingLnotab(m)

(***************************************************************************)
(* the two public compositions                                             *)
(***************************************************************************)
ToLineMapping(bs, maxoff, lt) == ItemsToMapping(Collapse(BytesToItems(bs), lt), maxoff, lt)
FromLineMapping(m, lt) == ItemsToBytes(Expand(MappingToItems(m, lt), lt))

=============================================================================
