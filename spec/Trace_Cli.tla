------------------------------- MODULE Trace_Cli -------------------------------
(***************************************************************************)
(* Trace validation for C16: one event = one real run of the command line   *)
(* (a subprocess of a 3.7-3.10 interpreter) for one option set and one      *)
(* program: exit status, which sections were found in stdout, and whether   *)
(* the data / JSON sections are what the API returns for the same program   *)
(* (computed in-process on the same interpreter).                          *)
(***************************************************************************)
EXTENDS Integers, Sequences, SequencesExt, FiniteSets, TLC, TLCExt, Json, IOUtils

CL == INSTANCE Cli

Tr == ndJsonDeserialize(IOEnv.TRACE_FILE)

VARIABLES l
vars == <<l>>

Clauses(e) ==
    LET o == [src |-> ToSet(e.src), flags |-> ToSet(e.flags)]
        out == CL!Outcome(o)
        norm == "no_normalize" \notin o.flags
    IN <<
        <<"P16.exit", e.exit = out.exit>>,
        <<"P16.usage_no_output", out.exit = 2 => ~e.printed_data>>,
        <<"P16.data", out.exit = 0 => (e.printed_data /\ (IF norm THEN e.data_is_norm ELSE e.data_is_raw))>>,
        <<"P16.json", (out.exit = 0 /\ "json" \in o.flags) =>
              (e.json_loads /\ (IF norm THEN e.json_is_norm ELSE e.json_is_raw))>>,
        <<"P16.no_json", (out.exit = 0 /\ "json" \notin o.flags) => ~e.has_json>>,
        <<"P16.dis_after", (out.exit = 0 /\ "dis" \in o.flags /\ "dis_after" \in o.flags) => e.dis_same>>
       >>

Failing(e) ==
    LET cs == Clauses(e)
    IN SelectSeq([i \in DOMAIN cs |-> IF cs[i][2] THEN "" ELSE cs[i][1]], LAMBDA x: x # "")

Init == l = 1
Step == l <= Len(Tr) /\ l' = l + 1
Spec == Init /\ [][Step]_vars

EventChecked ==
    (l > 1) => LET bad == Failing(Tr[l - 1]) IN
        (bad # <<>>) => PrintT("@@" \o ToJson([id |-> Tr[l - 1].id, bad |-> bad]) \o "@@")

TraceAccepted == TLCGet("stats").diameter - 1 = Len(Tr)
=============================================================================
