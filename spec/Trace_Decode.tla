----------------------------- MODULE Trace_Decode -----------------------------
(***************************************************************************)
(* Trace validation for the decoder (C02, C04, C09, C13; model binding for *)
(* C01).  One event = one real code object: its raw code units classified  *)
(* by the interpreter's own dis tables, its tables and header (value        *)
(* tokens), CPython's own reading (dis.get_instructions, PyCode_Addr2Line,  *)
(* the calling convention / inspect) and the projection of what            *)
(* CodeData.from_code returned, plus the outcome of the override-removal   *)
(* experiments the worker ran on the real library.                         *)
(*                                                                         *)
(*   ENV.*  environment model (CPyUnits, CPyLines) = the real interpreter  *)
(*   P02.* P04.* P09.* P13.*  the properties' own clauses                  *)
(*   M.*    the library's output = Decode.tla's output (binding)           *)
(***************************************************************************)
EXTENDS Integers, Sequences, SequencesExt, FiniteSets, TLC, TLCExt, Json, IOUtils

D == INSTANCE Decode
U == INSTANCE CPyUnits
CL == INSTANCE CPyLines
L == INSTANCE Lines
V == INSTANCE Versions
P == INSTANCE DecodeProps
H == INSTANCE CPyHeader

Tr == ndJsonDeserialize(IOEnv.TRACE_FILE)

VARIABLES l
vars == <<l>>

None == L!None

\* ------------------------------------------------------------------ clauses
Clauses(e) ==
    LET c == [e.c EXCEPT !.flags = ToSet(e.c.flags)]      \* JSON arrays are sequences
        lib == e.lib
        ver == e.ver
        scale == V!JumpScale(ver)
        lt == V!UseLinetable(ver)
        ncode == Len(c.units)
        ok == lib.exc = ""
        tab == L!BytesToItems(c.table)
        rel == CL!ReadAll(tab, ncode, lt)
        cpylines == [k \in 1..ncode |-> IF rel[k] = None THEN None ELSE rel[k] + c.first]
        m == D!Decode(c, ver)
    IN <<
        \* ---------------- environment binding
        <<"ENV.dis", U!DisRead(c, scale) = c.dis>>,
        <<"ENV.lines", cpylines = c.cpy_lines>>,
        <<"ENV.sig", (e.insp.ok /\ e.insp.sig_ok) => e.insp.sig = e.insp.bind>>,
        \* the header the real compiler wrote for a rendered declaration reads back as declared
        \* (binds CPyHeader.tla's layout to the compilers)
        <<"ENV.decl", e.has_decl => (e.insp.ok /\ e.insp.bind = e.decl
                                     /\ H!BindKinds([argcount |-> c.argcount, posonly |-> c.posonly,
                                                      kwonly |-> c.kwonly, varnames |-> c.varnames,
                                                      flags |-> c.flags]) = e.decl)>>
       >>
       \o P!PropClauses(c, ver, lib, c.cpy_lines, e.insp, lib.removal)
       \o <<
        \* ---------------- binding of Decode.tla to the code
        \* a decode that raises delivers no instruction sequence at all: wherever the reference model decodes,
        \* the library must (every compiled code object; the synthetic streams the model itself refuses are exempt)
        <<"P02.decodes", (m.exc = "") => ok>>,
        <<"M.exc", (m.exc = "") = ok>>,
        <<"M.exc_type", (m.exc # "" /\ ~ok) => m.exc = lib.exc_type>>,
        <<"M.header", (ok /\ m.exc = "") =>
              /\ m.h.is_fn = lib.is_fn /\ m.h.args = lib.args /\ m.h.doc = lib.doc
              /\ m.h.fn_type = lib.fn_type /\ m.h.annotations = lib.annotations /\ m.h.nested = lib.nested>>,
        <<"M.instrs", (ok /\ m.exc = "") => m.instrs = lib.instrs>>,
        <<"M.blocks", (ok /\ m.exc = "") => m.block_starts = lib.block_starts>>,
        <<"M.additional", (ok /\ m.exc = "") => m.additional = lib.additional>>,
        <<"M.addline", (ok /\ m.exc = "") => m.addline = lib.addline>>
       >>

\* a code object too large for TLC's sequences: the harness decided the clauses with dis + PyCode_Addr2Line
\* (wk/decode.direct_event); they are only named here
Direct(e) ==
    LET ok == e.exc = "" IN
    << <<"P02.decodes", ok>>, <<"P02.count", ok => e.count>>, <<"P02.names", (ok /\ e.count) => e.names>>,
       <<"P02.operands", (ok /\ e.count) => e.operands>>, <<"P02.jumps", (ok /\ e.count) => e.jumps>>,
       <<"P02.lines", (ok /\ e.count) => e.lines>>, <<"P13.partition", ok => e.partition>>,
       <<"P13.targets", (ok /\ e.count) => e.targets>>, <<"P13.jump_range", ok => e.jump_range>> >>

Failing(e) ==
    LET cs == IF ("kind" \in DOMAIN e) /\ e.kind = "direct" THEN Direct(e) ELSE Clauses(e)
    IN SelectSeq([i \in DOMAIN cs |-> IF cs[i][2] THEN "" ELSE cs[i][1]], LAMBDA x: x # "")

Init == l = 1
Step == l <= Len(Tr) /\ l' = l + 1
Spec == Init /\ [][Step]_vars

EventChecked ==
    (l > 1) => LET bad == Failing(Tr[l - 1]) IN
        (bad # <<>>) => PrintT("@@" \o ToJson([id |-> Tr[l - 1].id, bad |-> bad]) \o "@@")

TraceAccepted == TLCGet("stats").diameter - 1 = Len(Tr)
=============================================================================
