----------------------------- MODULE Trace_Encode -----------------------------
(***************************************************************************)
(* Trace validation for the encoder (C03; C01 and C05 reuse the events).   *)
(* One event = one real to_code() call: the projected input data, the      *)
(* relaxation passes logged by the guarded hook in /repo, CPython's own     *)
(* reading (dis, PyCode_Addr2Line, calling convention) of the code object   *)
(* that came out, and the outcome of decoding it again.                    *)
(*                                                                         *)
(*  ENV.*   environment model = the real interpreter on the output object  *)
(*  P03.*   C03's clauses.  "The code says what the data says" is          *)
(*          DecodeProps' reading clauses (P02.*, P04.*, P13.partition,     *)
(*          P13.jump_range) evaluated with the INPUT DATA in the place of   *)
(*          the decoder's output; they are reported under their own names   *)
(*          and the C03 check counts them as C03's.                        *)
(*  M.*     the real encoder = Encode.tla (tables, units, line table,      *)
(*          header, and every relaxation pass)                             *)
(***************************************************************************)
EXTENDS Integers, Sequences, SequencesExt, FiniteSets, TLC, TLCExt, Json, IOUtils

EN == INSTANCE Encode
U == INSTANCE CPyUnits
CL == INSTANCE CPyLines
L == INSTANCE Lines
V == INSTANCE Versions
P == INSTANCE DecodeProps
NZ == INSTANCE Normalize

Tr == ndJsonDeserialize(IOEnv.TRACE_FILE)

VARIABLES l
vars == <<l>>

None == L!None

\* data a user may build by hand with no private override fields, that this version can express
WellFormed(d, ver) ==
    LET n == Len(d.instrs)
        nb == Len(d.block_starts)
    IN /\ nb >= 1 /\ n >= 1
       /\ d.block_starts[1] = 0
       /\ \A b \in 1..nb : d.block_lens[b] >= 1
       /\ \A b \in 1..(nb - 1) : d.block_starts[b + 1] = d.block_starts[b] + d.block_lens[b]
       /\ d.block_starts[nb] + d.block_lens[nb] = n
       /\ \A j \in 1..n :
            LET i == d.instrs[j] IN
            /\ i[5] = -1 /\ i[7] = <<>>
            /\ (i[2] \in {"N", "V", "K", "C"}) => i[4] = -1
            /\ (i[2] = "F") => \E k \in DOMAIN d.freevars : d.freevars[k] = i[3]
            /\ (i[2] = "J") => (i[3] >= 0 /\ i[3] < nb /\ (i[4] = 1 => d.block_starts[i[3] + 1] >= j))
            /\ (~V!UseLinetable(ver)) => i[6] # None
       /\ d.additional = <<>> /\ d.addline = <<>>
       /\ (ver = "37") => d.args.po = <<>>

StripOp(s) == [s EXCEPT !.instrs = [j \in DOMAIN s.instrs |-> SubSeq(s.instrs[j], 1, 4)]]

Clauses(e) ==
    LET ver == e.ver
        ok == e.out.exc = "" /\ e.out.unreadable = ""
        c == [e.c EXCEPT !.flags = ToSet(e.c.flags)]
        c0 == [e.c0 EXCEPT !.flags = ToSet(e.c0.flags)]
        \* for C05/C06 nested code constants are identified by meaning, not by bits
        cS == [c EXCEPT !.consts = c.consts_sem]
        c0S == [c0 EXCEPT !.consts = c0.consts_sem]
        dS == [e.d EXCEPT !.instrs = [j \in DOMAIN e.d.instrs |->
                                        IF e.ksem[j] # -1 THEN [e.d.instrs[j] EXCEPT ![3] = e.ksem[j]] ELSE e.d.instrs[j]]]
        d == [e.d EXCEPT !.exc = IF ok THEN "" ELSE "to_code raised"]
        scale == V!JumpScale(ver)
        lt == V!UseLinetable(ver)
        ncode == Len(c.units)
        tab == L!BytesToItems(c.table)
        rel == CL!ReadAll(tab, ncode, lt)
        cpylines == [k \in 1..ncode |-> IF rel[k] = None THEN None ELSE rel[k] + c.first]
        km == [t \in {x[1] : x \in ToSet(e.keymap)} |->
                 LET x == CHOOSE y \in ToSet(e.keymap) : y[1] = t IN <<x[2], x[3]>>]
        m == EN!Encode(e.d, ver, km, ToSet(e.str_toks), e.none_tok, 40)
        njumps == Cardinality({j \in DOMAIN e.d.instrs : e.d.instrs[j][2] = "J"})
        outUnits == [k \in 1..ncode |-> <<c.units[k][2], c.units[k][3]>>]
        same == ok /\ m.exc = ""
        allprops == P!PropClauses(c, ver, d, c.cpy_lines, e.insp, <<>>)
        \* clauses about the DECODER's choices do not apply to hand-built / normalised input data
        props == SelectSeq(allprops, LAMBDA x: x[1] \notin {"P09.additional", "P09.justified", "P13.targets", "P14.iter", "P14.all"})
        \* the data's block boundaries are exactly the jump targets (what a decoder can give back)
        canonical == \E i \in DOMAIN allprops : allprops[i][1] = "P13.targets" /\ allprops[i][2]
        ok0 == e.out.exc = ""
        sem == NZ!Sem(cS, scale, c.cpy_lines)
        sem0 == NZ!Sem(c0S, scale, c0.cpy_lines)
    IN <<
        <<"ENV.dis", ok => U!DisRead(c, scale) = c.dis>>,
        <<"ENV.lines", ok => cpylines = c.cpy_lines>>,
        <<"ENV.sig", (ok /\ e.insp.ok /\ e.insp.sig_ok) => e.insp.sig = e.insp.bind>>,
        \* the guarded hook in /repo is present and was on (a to_code() that raises before the layout loop
        \* starts logs nothing): without it the relaxation loop is not observed
        <<"ENV.hook", ok0 => e.hook>>
       >>
       \o props
       \o <<
        \* ---------------- C01 (events whose input data was decoded from a real code object)
        <<"P01.to_code", (e.src = "decoded") => ok0>>,
        <<"P01.identical", (e.src = "decoded" /\ e.rt.ran /\ ok) => e.rt.same>>,
        \* ---------------- C05 / C06 (events whose input data is normalize(from_code(c0)))
        <<"ENV.dis0", e.has_c0 => U!DisRead(c0, scale) = c0.dis>>,
        \* meaning without the opcode-unit lines; then the line CPython reports while each instruction runs (the
        \* line at its opcode unit, behind any EXTENDED_ARG prefix), separately for instructions whose units all
        \* have one line in the original and for those whose original line changes INSIDE the instruction
        <<"P05.sem", (e.has_c0 /\ ok) => StripOp(sem) = StripOp(sem0)>>,
        <<"P05.opline", (e.has_c0 /\ ok /\ Len(sem.instrs) = Len(sem0.instrs)) =>
                  \A j \in DOMAIN sem0.instrs : (sem0.instrs[j][4] = sem0.instrs[j][5]) => sem.instrs[j][5] = sem0.instrs[j][5]>>,
        <<"P05.opline_split", (e.has_c0 /\ ok /\ Len(sem.instrs) = Len(sem0.instrs)) =>
                  \A j \in DOMAIN sem0.instrs : (sem0.instrs[j][4] # sem0.instrs[j][5]) => sem.instrs[j][5] = sem0.instrs[j][5]>>,
        <<"P05.nofree", (e.has_c0 /\ ok /\ ((6 \in c.flags) # (6 \in c0.flags))) =>
                  \* CO_NOFREE appears only when a cell variable that nothing references went away
                  (6 \in c.flags /\ Len(c0.freevars) = 0 /\ Len(c.cellvars) = 0 /\ Len(c0.cellvars) > 0)>>,
        <<"P05.succeeds", e.has_c0 => ok>>,
        <<"P06.canonical", e.has_c0 => NZ!Core(dS) = NZ!Canon(c0S, ver, c0.cpy_lines)>>,
        <<"P06.stable", (e.has_c0 /\ ok /\ e.again.ran) => e.again.ok>>,
        <<"P06.idempotent", e.has_c0 => (e.idem.eq /\ e.idem.hash /\ NZ!Core(NZ!Normalize(e.d)) = NZ!Core(e.d))>>,
        \* ---------------- C03
        <<"P03.terminates", ~e.out.timeout>>,
        \* whatever came out can be read by CPython's disassembler (no operand outside its table)
        <<"P03.readable", ok0 => e.out.unreadable = "">>,
        <<"P03.succeeds", WellFormed(e.d, ver) => ok0>>,
        <<"P03.freevars", ok => e.d.freevars = c.freevars>>,
        <<"P03.again", (ok /\ e.again.ran /\ canonical) => e.again.ok>>,
        \* advisory (S.*): the bound MC_Relax proves for the reference loop; the property only asks for termination
        <<"S03.passbound", e.hook => Len(e.relax) <= 3 * njumps + 1>>,
        \* ---------------- binding of Encode.tla to the code
        <<"M.exc", (m.exc = "") = ok0>>,
        <<"M.exc_type", (m.exc # "" /\ ~ok0) => m.exc = e.out.exc_type>>,
        <<"M.units", same => m.units = outUnits>>,
        <<"M.tables", same => /\ m.names = c.names /\ m.varnames = c.varnames /\ m.cellvars = c.cellvars
                              /\ m.consts = c.consts /\ m.freevars = c.freevars>>,
        <<"M.linetable", same => m.table = c.table>>,
        <<"M.header", same => /\ m.flags = c.flags /\ m.argcount = c.argcount /\ m.posonly = c.posonly
                              /\ m.kwonly = c.kwonly /\ m.nlocals = c.nlocals /\ m.first = c.first>>,
        \* MC_Relax's abstraction of padding (one wide instruction) agrees with the real run
        <<"M.graph", (e.model.has /\ e.hook /\ ok) =>
              /\ Len(e.relax) = e.model.passes
              /\ e.relax[Len(e.relax)][1] = e.model.jumpargs>>,
        <<"M.relax", (same /\ e.hook) =>
              EN!RelaxSeq(e.d, EN!Prepared(e.d, km, ToSet(e.str_toks), e.none_tok).args, scale, 1, 40) = e.relax>>
       >>

\* from_code itself raised on a compiled code object
FromCodeFailed(e) == << <<"P01.from_code", FALSE>> >>

\* an event too large for TLC's sequences (tables of 65 535 / 65 536 entries): the harness decided the clauses with
\* dis + PyCode_Addr2Line (wk/encode.direct_event); they are only named here
Direct(e) == << <<"P03.terminates", ~e.timeout>>, <<"P03.succeeds", e.timeout \/ e.ok0>>,
                <<"P03.readable", e.ok0 => e.readable>>,
                <<"P03.direct_count", e.readable => e.count>>,
                <<"P03.direct_operands", e.count => e.operands>>,
                <<"P03.direct_jumps", e.count => e.jumps>>,
                <<"P03.direct_lines", e.count => e.lines>> >>

\* the encoder emitted an operand of 2^31 or more (beyond TLC's integers) although no operand of the input is that
\* large (inputs with such operands, bpo-46724, never become events): whatever the data said, this is not it
WideOutput(e) ==
    << <<"P03.readable", FALSE>>, <<"P01.identical", e.src # "decoded">>, <<"P05.sem", ~e.has_c0>> >>

Failing(e) ==
    LET cs == IF e.kind = "fromcode_fail" THEN FromCodeFailed(e) ELSE IF e.kind = "direct" THEN Direct(e)
              ELSE IF e.wide THEN WideOutput(e) ELSE Clauses(e)
    IN SelectSeq([i \in DOMAIN cs |-> IF cs[i][2] THEN "" ELSE cs[i][1]], LAMBDA x: x # "")

Init == l = 1
Step == l <= Len(Tr) /\ l' = l + 1
Spec == Init /\ [][Step]_vars

EventChecked ==
    (l > 1) => LET bad == Failing(Tr[l - 1]) IN
        (bad # <<>>) => PrintT("@@" \o ToJson([id |-> Tr[l - 1].id, bad |-> bad]) \o "@@")

TraceAccepted == TLCGet("stats").diameter - 1 = Len(Tr)
=============================================================================
