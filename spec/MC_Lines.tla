------------------------------ MODULE MC_Lines ------------------------------
(***************************************************************************)
(* Bounded model for C10.  The environment (CPython's assembler, then the  *)
(* <=3.9 peephole) is a state machine that builds a line table run by run; *)
(* every completed table is pushed through the library's codec (Lines.tla) *)
(* and the properties of C10 are invariants of the completed states.       *)
(*                                                                         *)
(* Every completed state is printed so that the harness can replay the     *)
(* table into the real library on the real interpreters (spec -> code).    *)
(***************************************************************************)
EXTENDS Integers, Sequences, FiniteSets, SequencesExt, TLC, Json

CONSTANTS Asm,        \* "a37" | "a38" | "a39" | "a310"
          MaxRuns,    \* number of runs in a line program
          Sizes,      \* run sizes in code units
          LineVals,   \* run lines relative to co_firstlineno (NoLine allowed for a310)
          Removal,    \* BOOLEAN: explore peephole removals (<= 3.9 only)
          Emit        \* BOOLEAN: print completed states

L == INSTANCE Lines
C == INSTANCE CPyLines

VARIABLES phase, prog, st, tab, ncode, removed

vars == <<phase, prog, st, tab, ncode, removed>>

IsLT == Asm = "a310"

\* first unit (0-based) of run i
RunStart(i) == FoldLeft(LAMBDA a, r: a + r[1], 0, SubSeq(prog, 1, i - 1))

(***************************************************************************)
(* The library's codec on the completed table, evaluated once per state    *)
(* (all definitions are LET-bound so that TLC computes each value once).    *)
(***************************************************************************)
Analysis ==
    LET bytes == L!ItemsToBytes(tab)
        items == L!BytesToItems(bytes)
        coll == L!Collapse(items, IsLT)
        map == L!ItemsToMapping(coll, 2 * ncode, IsLT)
        coll2 == L!MappingToItems(map, IsLT)
        bytes2 == L!ItemsToBytes(L!Expand(coll2, IsLT))
        read == C!ReadAll(tab, ncode, IsLT)
    IN [bytes |-> bytes,
        \* C10, second half: re-encoding the decoded mapping reproduces the table
        rt |-> bytes2 = bytes,
        \* C10, first half: every instruction offset gets the line CPython assigns
        rd |-> SubSeq(map.lines, 1, ncode) = read,
        \* each stage is inverted by its partner
        inv |-> items = tab /\ L!Expand(coll, IsLT) = items /\ coll2 = coll,
        \* the one-pass reader used for trace validation is the per-offset reader
        readers |-> read = C!ReadAllSlow(tab, ncode, IsLT),
        \* sanity of the environment model: without removals the reader gives every run the
        \* line the program asked for
        sane |-> (removed = {}) => \A i \in 1..Len(prog) : read[RunStart(i) + 1] = prog[i][2]]

Init ==
    /\ phase = "asm"
    /\ prog = <<>>
    /\ st = IF IsLT THEN C!Asm310Init ELSE C!Asm39Init
    /\ tab = <<>>
    /\ ncode = 0
    /\ removed = {}

AddRun(u, line) ==
    /\ phase = "asm"
    /\ Len(prog) < MaxRuns
    /\ (line = C!NoLine) => IsLT
    \* a run is maximal for the assemblers that merge equal lines
    /\ (Asm \in {"a39", "a310"} /\ Len(prog) > 0) => prog[Len(prog)][2] # line
    /\ prog' = Append(prog, <<u, line>>)
    /\ st' = IF IsLT THEN C!LinetableRun(st, u, line)
                     ELSE C!LnotabRun(st, u, line, Asm = "a39")
    /\ UNCHANGED <<phase, tab, ncode, removed>>

Finish ==
    /\ phase = "asm"
    /\ Len(prog) >= 1
    /\ tab' = IF IsLT THEN C!LinetableFinish(st).tab ELSE st.tab
    /\ ncode' = st.off
    /\ phase' = IF IsLT \/ ~Removal THEN "done" ELSE "fin"
    /\ UNCHANGED <<prog, st, removed>>

\* the peephole deletes whole runs R (dead code, folded constants)
Optimize(R) ==
    /\ phase = "fin"
    /\ (R # {}) => C!PeepholeApplies(Asm, tab)
    /\ LET units == UNION {{RunStart(i) + k : k \in 0..(prog[i][1] - 1)} : i \in R}
       IN /\ Cardinality(units) < ncode          \* something is left
          /\ removed' = units
          /\ tab' = IF R = {} THEN tab ELSE C!PeepholeFixup(tab, units)
          /\ ncode' = ncode - Cardinality(units)
    /\ phase' = "done"
    /\ UNCHANGED <<prog, st>>

Next ==
    \/ \E u \in Sizes, line \in LineVals : AddRun(u, line)
    \/ Finish
    \/ \E R \in SUBSET (1..Len(prog)) : Optimize(R)

Spec == Init /\ [][Next]_vars

----------------------------------------------------------------------------
Done == phase = "done"

(***************************************************************************)
(* The invariant.  TLC caches LET-bound values only inside one evaluation  *)
(* of an unprimed expression, so the five clauses are conjoined in one     *)
(* invariant (evaluating them as separate invariants costs one analysis per *)
(* state, and computing the analysis in the action is far slower still).   *)
(* The printed line carries the bits (and the stricter, advisory           *)
(* stage-inverse bit), so a violation names its clause,                    *)
(* and doubles as the replay output (spec -> code): one line per completed *)
(* state.                                                                  *)
(***************************************************************************)
C10Model ==
    Done => LET a == Analysis IN
        /\ Emit => PrintT("@@" \o ToJson(<<Asm, prog, SetToSortSeq(removed, <), a.bytes, ncode,
                                           a.rt, a.rd, a.inv, a.readers, a.sane>>) \o "@@")
        /\ a.rt          \* BytesReproduced
        /\ a.rd          \* MappingMatchesReader
        /\ a.readers     \* ReadersAgree   (environment model, internal consistency)
        /\ a.sane        \* AssemblerSane  (environment model, internal consistency)

\* constant sets for the configurations (a .cfg file cannot contain negative numbers)
LV_quick == {0, 1, 5, 132, 133, 259, 260, 400}
LV_thorough == {-1, 0, 1, 5, 131, 132, 133, 134, 258, 259, 260, 261, 386, 400}
LV_tiny == {0, 5, 132, 133, 260}
LV_tiny_nl == LV_tiny \cup {C!NoLine}
LV_quick_nl == LV_quick \cup {C!NoLine}
LV_thorough_nl == LV_thorough \cup {C!NoLine}
=============================================================================
