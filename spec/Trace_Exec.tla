------------------------------ MODULE Trace_Exec ------------------------------
(***************************************************************************)
(* C05, behavioural part.  One event = one program executed twice on a     *)
(* real interpreter: its compiled code object (a) and the code object the  *)
(* library returns for normalize(from_code(.)) (b).  The two recorded      *)
(* behaviours - traced call/line/return/exception events, return values,   *)
(* printed output - must be the same behaviour.                            *)
(***************************************************************************)
EXTENDS Integers, Sequences, SequencesExt, TLC, TLCExt, Json, IOUtils

Tr == ndJsonDeserialize(IOEnv.TRACE_FILE)

VARIABLES l
vars == <<l>>

Clauses(e) ==
    << <<"P05.exec.normalize", e.norm_exc = "">>,
       <<"P05.exec.events", e.norm_exc = "" => e.a.events = e.b.events>>,
       <<"P05.exec.results", e.norm_exc = "" => e.a.results = e.b.results>>,
       <<"P05.exec.output", e.norm_exc = "" => e.a.out = e.b.out>> >>

Failing(e) ==
    LET cs == Clauses(e)
    IN SelectSeq([i \in DOMAIN cs |-> IF cs[i][2] THEN "" ELSE cs[i][1]], LAMBDA x: x # "")

Init == l = 1
Step == l <= Len(Tr) /\ l' = l + 1
Spec == Init /\ [][Step]_vars

EventChecked ==
    (l > 1) => LET bad == Failing(Tr[l - 1]) IN
        (bad # <<>>) => PrintT("@@" \o ToJson([id |-> Tr[l - 1].id, bad |-> bad]) \o "@@")

TraceAccepted == TLCGet("stats").diameter - 1 = Len(Tr)
=============================================================================
