------------------------------ MODULE CPyConst ------------------------------
(***************************************************************************)
(* The universe of constants a code object can hold, as abstract terms     *)
(* over a small alphabet of atoms, together with                           *)
(*   CPyKey   the partition CPython's constant table makes                 *)
(*            (_PyCode_ConstantKey: type-exact, signed zeros apart, each   *)
(*            NaN object its own class),                                   *)
(*   LibKey   the partition the library documents: the same, except that   *)
(*            all NaNs are one class,                                      *)
(*   ToJson   the JSON form the library documents for a constant.          *)
(* A term is <<"atom", name>>, <<"tuple", seq of terms>>,                  *)
(* <<"frozenset", set of terms>> or <<"complex", real atom, imag atom>>    *)
(* (always a tuple whose first element is the tag: TLC cannot compare a    *)
(* string with a tuple).                                                   *)
(* The harness maps atom names to real Python values (harness/c07.py) and  *)
(* binds CPyKey to ctypes _PyCode_ConstantKey on the real interpreters.    *)
(***************************************************************************)
EXTENDS Integers, Sequences, SequencesExt, FiniteSets, TLC

\* atom -> [ty, cls]: cls is the atom's class under LibKey within its type
\* ("nan2" is a second NaN object: same LibKey class as "nan", another CPyKey class)
Atoms ==
    [i0 |-> [ty |-> "int"], i1 |-> [ty |-> "int"], im1 |-> [ty |-> "int"],
     ibig |-> [ty |-> "int"],        \* 2**53 - 1: still a bare JSON number
     ibig1 |-> [ty |-> "int"],       \* 2**53: carried as a string
     inbig1 |-> [ty |-> "int"],      \* -(2**53)
     ihuge |-> [ty |-> "int"],       \* 2**64
     ivast |-> [ty |-> "int"],       \* 16**4000 - 1: more digits than str()/int() accept (4300) on current interpreters
     invast |-> [ty |-> "int"],      \* -(10**5000) - 7
     true |-> [ty |-> "bool"], false |-> [ty |-> "bool"],
     f0 |-> [ty |-> "float"], fm0 |-> [ty |-> "float"], f1 |-> [ty |-> "float"], f15 |-> [ty |-> "float"],
     nan |-> [ty |-> "float"], nan2 |-> [ty |-> "float"], inf |-> [ty |-> "float"], ninf |-> [ty |-> "float"],
     sa |-> [ty |-> "str"], sempty |-> [ty |-> "str"], ssurr |-> [ty |-> "str"], snonbmp |-> [ty |-> "str"],
     ssurr2 |-> [ty |-> "str"],      \* lone surrogate + a character printable only from Unicode 13 on
     spair |-> [ty |-> "str"],       \* high surrogate + low surrogate as two code points
     s1 |-> [ty |-> "str"],          \* the string "1"
     ba |-> [ty |-> "bytes"], bempty |-> [ty |-> "bytes"],
     none |-> [ty |-> "none"], ellipsis |-> [ty |-> "ellipsis"]]

AtomNames == DOMAIN Atoms
FloatAtoms == {a \in AtomNames : Atoms[a].ty = "float"}

At(a) == <<"atom", a>>
IsAtom(t) == t[1] = "atom"
IsNaN(a) == a \in {"nan", "nan2"}

\* ---------------------------------------------------------------- keys
\* LibKey: a canonical term; equal canonical terms <=> the library must treat the constants as equal
RECURSIVE LibKey(_)
LibKey(t) ==
    IF IsAtom(t) THEN (IF IsNaN(t[2]) THEN At("nan") ELSE t)
    ELSE IF t[1] = "tuple" THEN <<"tuple", [i \in DOMAIN t[2] |-> LibKey(t[2][i])]>>
    ELSE IF t[1] = "frozenset" THEN <<"frozenset", {LibKey(x) : x \in t[2]}>>
    ELSE <<"complex", IF IsNaN(t[2]) THEN "nan" ELSE t[2], IF IsNaN(t[3]) THEN "nan" ELSE t[3]>>

\* CPyKey: the same with NaN objects kept apart
RECURSIVE CPyKey(_)
CPyKey(t) ==
    IF IsAtom(t) THEN t
    ELSE IF t[1] = "tuple" THEN <<"tuple", [i \in DOMAIN t[2] |-> CPyKey(t[2][i])]>>
    ELSE IF t[1] = "frozenset" THEN <<"frozenset", {CPyKey(x) : x \in t[2]}>>
    ELSE t

\* ---------------------------------------------------------------- JSON form (tagged trees)
\* <<"o", seq of <<key, tree>>>>  <<"a", seq of trees>>  <<"s", atom>>  <<"i", atom>>  <<"f", atom>>
\* <<"b", atom>>  <<"n">>; leaves carry the atom name (the harness compares with the real value)
Obj1(k, v) == <<"o", <<<<k, v>>>>>>

JsonOfFloat(a) ==
    CASE a \in {"nan", "nan2"} -> Obj1("float", <<"s", "nan">>)
      [] a = "inf" -> Obj1("float", <<"s", "inf">>)
      [] a = "ninf" -> Obj1("float", <<"s", "-inf">>)
      [] OTHER -> <<"f", a>>

RECURSIVE ToJson(_)
ToJson(t) ==
    IF IsAtom(t) THEN
        LET a == t[2] IN
        CASE Atoms[a].ty = "int" -> (IF a \in {"ibig1", "inbig1", "ihuge", "ivast", "invast"} THEN Obj1("int", <<"s", a>>) ELSE <<"i", a>>)
          [] Atoms[a].ty = "bool" -> <<"b", a>>
          [] Atoms[a].ty = "float" -> JsonOfFloat(a)
          [] Atoms[a].ty = "str" -> (IF a \in {"ssurr", "ssurr2", "spair"} THEN Obj1("string", <<"s", "repr:" \o a>>) ELSE <<"s", a>>)
          [] Atoms[a].ty = "bytes" -> Obj1("bytes", <<"s", "b64:" \o a>>)
          [] Atoms[a].ty = "none" -> <<"n", "none">>
          [] OTHER -> Obj1("type", <<"s", "ellipsis">>)
    ELSE IF t[1] = "tuple" THEN <<"a", [i \in DOMAIN t[2] |-> ToJson(t[2][i])]>>
    ELSE IF t[1] = "frozenset" THEN Obj1("frozenset", <<"a", SetToSeq({ToJson(x) : x \in t[2]})>>)
    ELSE <<"o", <<<<"real", JsonOfFloat(t[2])>>, <<"imag", JsonOfFloat(t[3])>>>>>>

\* ---------------------------------------------------------------- Python's ==
\* PyEqKey: equal keys <=> Python's == holds between the values (NaN atoms are kept apart: nan != nan).
\* A frozenset cannot hold two ==-equal elements, so a term <<"frozenset", X>> denotes a Python value with
\* Cardinality(X) elements only if X is Proper.
ZeroAtoms == {"i0", "f0", "fm0", "false"}
OneAtoms == {"i1", "f1", "true"}
RECURSIVE PyEqKey(_)
PyEqKey(t) ==
    IF IsAtom(t) THEN (IF t[2] \in ZeroAtoms THEN At("i0") ELSE IF t[2] \in OneAtoms THEN At("i1") ELSE t)
    ELSE IF t[1] = "tuple" THEN <<"tuple", [i \in DOMAIN t[2] |-> PyEqKey(t[2][i])]>>
    ELSE IF t[1] = "frozenset" THEN <<"frozenset", {PyEqKey(x) : x \in t[2]}>>
    ELSE IF t[3] \in {"f0", "fm0"} /\ ~IsNaN(t[2]) THEN PyEqKey(At(t[2]))      \* complex(x, 0) == x
    ELSE t
Proper(X) == \A x, y \in X : (x # y) => PyEqKey(x) # PyEqKey(y)

\* ---------------------------------------------------------------- enumeration
Terms0 == {At(a) : a \in AtomNames}
Complexes(fl) == {<<"complex", r, i>> : r \in fl, i \in fl}
Tuples(S, n) == UNION {{<<"tuple", s>> : s \in [1..k -> S]} : k \in 0..n}
Sets(S, n) == {<<"frozenset", X>> : X \in {Y \in SUBSET S : Cardinality(Y) <= n /\ Proper(Y)}}

=============================================================================
