------------------------------- MODULE MC_Doc -------------------------------
(***************************************************************************)
(* Bounded model of document SHAPES (C07, C12, C15): every combination of  *)
(* present/absent optional fields of one dataclass at a time, around a     *)
(* fixed template.  focus = "instr": the first instruction of the template *)
(* ranges over every argument kind x _n_args_override x line_number x      *)
(* _line_offsets_override; "type": over Function/Args/docstring/kind;      *)
(* "top": over freevars, future_annotations, _nested, _additional_line,    *)
(* _additional_args.  Each initial state is one abstract CodeData; it is   *)
(* printed, the harness builds the real CodeData from it, pushes it        *)
(* through the real codec and Trace_Json compares the real document with   *)
(* JsonDoc!DocOf of the abstract value (M.doc) next to the C07/C12 clauses.*)
(* Invariants here are about the format itself: no duplicate keys, and the *)
(* reader's dispatch on an argument document finds the writer's kind.      *)
(***************************************************************************)
EXTENDS Integers, Sequences, SequencesExt, FiniteSets, TLC, Json

CONSTANTS Emit

D == INSTANCE JsonDoc
C == INSTANCE CPyConst

VARIABLES focus, ix
vars == <<focus, ix>>

None == <<>>
Ins(n, a, na, ln, lo) == [name |-> n, arg |-> a, nargs |-> na, line |-> ln, lo |-> lo]

NoParams == [po |-> <<>>, pk |-> <<>>, va |-> None, ko |-> <<>>, vk |-> None]

Inner == [blocks |-> << << Ins("LOAD_CONST", <<"const", C!At("ssurr"), None>>, None, <<7>>, <<>>),
                          Ins("RETURN_VALUE", <<"noarg", 0>>, None, <<7>>, <<>>) >> >>,
          filename |-> "sa", first |-> 7, name |-> "ssurr", stacksize |-> 1,
          type |-> <<"fn", [NoParams EXCEPT !.pk = <<"sa">>], None, None>>, freevars |-> <<>>, fut |-> FALSE, nested |-> TRUE,
          addline |-> None, addargs |-> <<>>]

ArgVals == <<
    <<"noarg", 0>>, <<"noarg", 7>>, <<"int", 2>>, <<"jump", 0, FALSE>>, <<"jump", 0, TRUE>>,
    <<"name", "sa", None>>, <<"name", "sa", <<0>>>>, <<"name", "ssurr", None>>,
    <<"varname", "sa", None>>, <<"varname", "sa", <<0>>>>,
    <<"const", C!At("i1"), None>>, <<"const", C!At("ssurr"), <<0>>>>, <<"const", C!At("ihuge"), None>>,
    <<"const", <<"tuple", <<C!At("i1"), C!At("nan"), C!At("ba")>>>>, None>>,
    <<"code", Inner, None>>, <<"code", Inner, <<0>>>>,
    <<"freevar", "sa">>, <<"cellvar", "sa", None>>, <<"cellvar", "sa", <<0>>>>
>>
OpFor(a) ==
    CASE a[1] = "noarg" -> "NOP" [] a[1] = "int" -> "CALL_FUNCTION"
      [] a[1] = "jump" -> (IF a[3] THEN "JUMP_FORWARD" ELSE "JUMP_ABSOLUTE")
      [] a[1] = "name" -> "LOAD_NAME" [] a[1] = "varname" -> "LOAD_FAST"
      [] a[1] \in {"const", "code"} -> "LOAD_CONST" [] OTHER -> "LOAD_DEREF"
NArgVals == <<None, <<1>>, <<2>>, <<3>>>>
LineVals == <<None, <<4>>, <<300>>>>
LoVals == << <<>>, <<0>>, <<0, 2>> >>

DocVals == <<None, <<"sa">>, <<"ssurr">>, <<"sempty">>>>
KindVals == <<None, <<"GENERATOR">>, <<"COROUTINE">>, <<"ASYNC_GENERATOR">>>>
SeqVals == << <<>>, <<"sa">>, <<"sa", "snonbmp">> >>
OptVals == <<None, <<"s1">>>>

FreeVals == << <<>>, <<"sa">>, <<"sa", "ssurr">> >>
AddLineVals == <<None, << <<None, <<>>>> >>, << << <<9>>, <<>> >> >>, << << <<9>>, <<1, -1>> >> >>, << <<None, <<2>>>> >> >>
AddArgVals == << <<>>, << <<"name", "sa", <<0>>>> >>,
                 << <<"const", C!At("none"), <<0>>>>, <<"varname", "ssurr", <<0>>>>, <<"cellvar", "sa", <<0>>>> >>,
                 << <<"code", Inner, <<0>>>> >> >>

TailIns == << Ins("LOAD_CONST", <<"const", C!At("none"), None>>, None, <<5>>, <<>>),
           Ins("RETURN_VALUE", <<"noarg", 0>>, None, <<5>>, <<>>) >>

Template(first, type, free, fut, nested, addline, addargs) ==
    [blocks |-> << <<first>> \o TailIns >>, filename |-> "sa", first |-> 3, name |-> "s1", stacksize |-> 2,
     type |-> type, freevars |-> free, fut |-> fut, nested |-> nested, addline |-> addline, addargs |-> addargs]

PlainFirst == Ins("NOP", <<"noarg", 0>>, None, <<4>>, <<>>)
RichType == <<"fn", [NoParams EXCEPT !.pk = <<"sa">>], <<"sa">>, None>>

RangesOf(f) ==
    CASE f = "instr" -> <<Len(ArgVals), Len(NArgVals), Len(LineVals), Len(LoVals), 2, 1>>
      [] f = "type" -> <<Len(SeqVals), Len(SeqVals), Len(OptVals), Len(SeqVals), Len(OptVals), Len(DocVals) * Len(KindVals)>>
      [] OTHER -> <<Len(FreeVals), 2, 2, Len(AddLineVals), Len(AddArgVals), 2>>

Shape ==
    CASE focus = "instr" ->
            LET a == ArgVals[ix[1]]
                first == Ins(OpFor(a), a, NArgVals[ix[2]], LineVals[ix[3]], LoVals[ix[4]])
                rich == ix[5] = 2
                free == IF a[1] = "freevar" THEN <<a[2]>> ELSE <<>>
            IN Template(first, IF rich THEN RichType ELSE <<"none">>, free, rich, rich,
                        IF rich THEN << << <<9>>, <<1>> >> >> ELSE None, IF rich THEN AddArgVals[2] ELSE <<>>)
      [] focus = "type" ->
            LET args == [po |-> SeqVals[ix[1]], pk |-> SeqVals[ix[2]], va |-> OptVals[ix[3]], ko |-> SeqVals[ix[4]], vk |-> OptVals[ix[5]]]
                d == ((ix[6] - 1) % Len(DocVals)) + 1
                k == ((ix[6] - 1) \div Len(DocVals)) + 1
            IN Template(PlainFirst, <<"fn", args, DocVals[d], KindVals[k]>>, <<>>, FALSE, FALSE, None, <<>>)
      [] OTHER ->
            Template(PlainFirst, IF ix[6] = 2 THEN RichType ELSE <<"none">>, FreeVals[ix[1]], ix[2] = 2, ix[3] = 2,
                     AddLineVals[ix[4]], AddArgVals[ix[5]])

Prod(r) == (1..r[1]) \X (1..r[2]) \X (1..r[3]) \X (1..r[4]) \X (1..r[5]) \X (1..r[6])
Init == \E f \in {"instr", "type", "top"} : focus = f /\ ix \in Prod(RangesOf(f))
Next == UNCHANGED vars
Spec == Init /\ [][Next]_vars

AllArgs(cd) == D!Cat([b \in DOMAIN cd.blocks |-> [k \in DOMAIN cd.blocks[b] |-> cd.blocks[b][k].arg]]) \o cd.addargs

DocModel ==
    LET cd == Shape
        doc == D!DocOf(cd)
        as == AllArgs(cd)
    IN /\ Emit => PrintT("@@" \o ToJson([focus |-> focus, ix |-> ix, abs |-> cd]) \o "@@")
       /\ D!NoDupKeys(doc)
       /\ \A i \in DOMAIN as : ~D!IsDefaultArg(as[i]) => D!ReaderKind(D!ArgDoc(as[i])) = D!WriterKind(as[i])
       \* design-level round trip: the reader applied to the writer's document gives the data back
       /\ D!FromDoc(doc) = cd
=============================================================================
