----------------------------- MODULE DecodeProps -----------------------------
(***************************************************************************)
(* The decoder-side properties as predicates over                          *)
(*   c    an abstract code object (units, tables, header; value tokens),   *)
(*   lib  a decoding of it in the projected form of Decode.tla / the       *)
(*        harness (instrs, block_starts, block_lens, additional, ...),     *)
(*   cpylines  CPython's line for every code unit (absolute; None = none), *)
(*   insp      CPython's calling-convention reading of the header,         *)
(*   removal   outcomes of override-removal experiments.                   *)
(* Used on the reference decoder by MC_Decode (design level) and on the    *)
(* real library's output by Trace_Decode (implementation level).           *)
(*   C02  ReadsLikeCPython      C13  BlocksArePartition                    *)
(*   C04  SignatureMatches      C09  OverridesJustified / Additional...    *)
(***************************************************************************)
EXTENDS Integers, Sequences, SequencesExt, FiniteSets, TLC

D == INSTANCE Decode
U == INSTANCE CPyUnits
V == INSTANCE Versions

\* ------------------------------------------------------------------ first-use ranks (C09)
RankStep(r, idx) == IF idx \in DOMAIN r THEN r ELSE D!Put(r, idx, Cardinality(DOMAIN r))

FnLike(c) == 0 \in c.flags /\ 1 \in c.flags
NParams(c) == c.argcount + c.kwonly + (IF 2 \in c.flags THEN 1 ELSE 0) + (IF 3 \in c.flags THEN 1 ELSE 0)

\* ranks of the referenced / seeded entries only
UsedRanks(c, ins) ==
    LET np == IF NParams(c) < Len(c.varnames) THEN NParams(c) ELSE Len(c.varnames)
        base == [N |-> D!EmptyFn,
                 V |-> IF FnLike(c) THEN [i \in 0..(np - 1) |-> i] ELSE D!EmptyFn,
                 C |-> D!EmptyFn,
                 K |-> IF FnLike(c) /\ Len(c.consts) > 0 /\ c.const_is_str[1] THEN [i \in {0} |-> 0] ELSE D!EmptyFn]
        step(r, i) ==
            CASE i.cls = "NAME" -> [r EXCEPT !.N = RankStep(@, i.arg)]
              [] i.cls = "LOCAL" -> [r EXCEPT !.V = RankStep(@, i.arg)]
              [] i.cls = "CONST" -> [r EXCEPT !.K = RankStep(@, i.arg)]
              [] i.cls = "FREE" /\ i.arg < Len(c.cellvars) -> [r EXCEPT !.C = RankStep(@, i.arg)]
              [] OTHER -> r
    IN FoldLeft(step, base, ins)

Fill(r, n) == FoldLeft(LAMBDA a, i: RankStep(a, i), r, [j \in 1..n |-> j - 1])

Unreferenced(kind, table, used) ==
    SelectSeq([j \in 1..Len(table) |-> IF (j - 1) \in DOMAIN used THEN <<>> ELSE <<kind, table[j]>>],
              LAMBDA x: x # <<>>)

\* ------------------------------------------------------------------ clauses
\* c.flags must be a set of bit indices
PropClauses(c, ver, lib, cpylines, insp, removal) ==
    LET scale == V!JumpScale(ver)
        ins == U!Instructions(c.units)
        n == Len(ins)
        ok == lib.exc = ""
        li == lib.instrs
        nl == Len(li)
        same == ok /\ nl = n
        firstUnit(j) == ins[j].off \div 2 + 1
        \* index (0-based) of the instruction that starts at byte offset t, or -1
        startAt(t) == LET S == {j \in 1..n : ins[j].off = t} IN IF S = {} THEN -1 ELSE (CHOOSE j \in S : TRUE) - 1
        jumps == {j \in 1..n : U!IsJump(ins[j])}
        targetIdx == {startAt(U!JumpTarget(ins[j], scale)) : j \in jumps}
        used == UsedRanks(c, ins)
        ranks == [N |-> Fill(used.N, Len(c.names)), V |-> Fill(used.V, Len(c.varnames)),
                  C |-> Fill(used.C, Len(c.cellvars)), K |-> Fill(used.K, Len(c.consts))]
        nb == Len(lib.block_starts)
    IN <<
        \* ---------------- C02
        <<"P02.count", ok => nl = n>>,
        <<"P02.names", same => \A j \in 1..n : li[j][1] = ins[j].op>>,
        <<"P02.operands", same => \A j \in 1..n :
              LET i == ins[j] x == li[j] IN
              CASE i.cls = "NAME" -> x[2] = "N" /\ x[3] = U!Operand(i, c)
                [] i.cls = "LOCAL" -> x[2] = "V" /\ x[3] = U!Operand(i, c)
                [] i.cls = "CONST" -> x[2] = "K" /\ x[3] = U!Operand(i, c)
                [] i.cls = "FREE" -> x[2] = (IF i.arg < Len(c.cellvars) THEN "C" ELSE "F") /\ x[3] = U!Operand(i, c)
                [] i.cls = "RAW" -> x[2] = "I" /\ x[3] = i.arg
                [] i.cls = "NOARG" -> x[2] = "0"
                [] OTHER -> x[2] = "J">>,
        <<"P02.jumps", same => \A j \in jumps :
              LET x == li[j] IN
              /\ x[2] = "J"
              /\ x[4] = (IF ins[j].cls = "JREL" THEN 1 ELSE 0)
              /\ x[3] >= 0 /\ x[3] < nb
              /\ lib.block_starts[x[3] + 1] = startAt(U!JumpTarget(ins[j], scale))>>,
        <<"P02.lines", same => \A j \in 1..n : li[j][6] = cpylines[firstUnit(j)]>>,
        \* ---------------- C13
        <<"P13.partition", ok =>
              /\ nb >= 1 /\ lib.block_starts[1] = 0
              /\ \A b \in 1..nb : lib.block_lens[b] >= 1
              /\ \A b \in 1..(nb - 1) : lib.block_starts[b + 1] = lib.block_starts[b] + lib.block_lens[b]
              /\ lib.block_starts[nb] + lib.block_lens[nb] = nl>>,
        <<"P13.targets", same => {lib.block_starts[b] : b \in 1..nb} = {0} \cup targetIdx>>,
        <<"P13.jump_range", ok => \A j \in 1..nl : li[j][2] = "J" => (li[j][3] >= 0 /\ li[j][3] < nb)>>,
        \* ---------------- C04
        \* a function-like code object (one the interpreter can wrap in a function: insp.ok) is decoded at all
        <<"P04.decodes", insp.ok => ok>>,
        <<"P04.is_fn", ok => lib.is_fn = FnLike(c)>>,
        <<"P04.params", (ok /\ insp.ok) => lib.params = insp.bind>>,
        <<"P04.len", (ok /\ insp.ok) => lib.nargs = Len(insp.bind)>>,
        <<"P04.doc", (ok /\ insp.ok) => lib.doc = insp.doc>>,
        <<"P04.kind", (ok /\ insp.ok) => lib.fn_type = insp.kind>>,
        \* ---------------- C09
        <<"P09.justified", ok => \A k \in DOMAIN removal :
              LET r == removal[k] IN (ranks[r[1]][r[2]] = r[2]) => r[3]>>,
        \* as multisets: the property does not fix the order in which additional arguments are listed
        <<"P09.additional", same =>
              LET got == [k \in DOMAIN lib.additional |-> <<lib.additional[k][1], lib.additional[k][2]>>]
                  want == Unreferenced("N", c.names, used.N) \o Unreferenced("V", c.varnames, used.V)
                          \o Unreferenced("C", c.cellvars, used.C) \o Unreferenced("K", c.consts, used.K)
                  cnt(sq, x) == Cardinality({k \in DOMAIN sq : sq[k] = x})
              IN /\ Len(got) = Len(want)
                 /\ \A k \in DOMAIN want : cnt(got, want[k]) = cnt(want, want[k])>>
       ,
        \* ---------------- C14
        <<"P14.iter", ok =>
              LET want == SelectSeq([k \in DOMAIN c.consts |-> IF c.const_is_code[k] THEN c.consts[k] ELSE -1], LAMBDA x: x # -1)
                  cnt(sq, x) == Cardinality({k \in DOMAIN sq : sq[k] = x})
              IN /\ lib.iter_exc = ""
                 /\ Len(lib.iter) = Len(want)
                 /\ \A k \in DOMAIN want : cnt(lib.iter, want[k]) = cnt(want, want[k])>>,
        <<"P14.all", ok => (lib.all_count = c.expected_all /\ lib.all_first_self)>>
       >>

=============================================================================
