----------------------------- MODULE MC_Signature -----------------------------
(***************************************************************************)
(* Bounded model for C04: every signature shape with 0..N parameters of    *)
(* each kind.  Each initial state is one shape; the invariant says that    *)
(* the library's header decoder (Decode!DecodeHeader) applied to the       *)
(* header CPython writes for that shape (CPyHeader!Header) returns the     *)
(* declared parameters with their kinds, in signature order.  Every state  *)
(* is printed; the harness renders it as source for every scope kind and   *)
(* docstring shape, compiles it on 3.7-3.10 and validates the real         *)
(* library's answer with Trace_Decode.tla (P04.* clauses).                 *)
(***************************************************************************)
EXTENDS Integers, Sequences, FiniteSets, TLC, Json

CONSTANTS N,        \* max parameters per kind
          Ver,
          Emit

H == INSTANCE CPyHeader
D == INSTANCE Decode

VARIABLES npo, npk, nko, hva, hvk, kind
vars == <<npo, npk, nko, hva, hvk, kind>>

Kinds == {"", "GENERATOR", "COROUTINE", "ASYNC_GENERATOR"}

Init ==
    /\ npo \in (IF Ver = "37" THEN {0} ELSE 0..N)
    /\ npk \in 0..N
    /\ nko \in 0..N
    /\ hva \in BOOLEAN
    /\ hvk \in BOOLEAN
    /\ kind \in Kinds

Next == UNCHANGED vars
Spec == Init /\ [][Next]_vars

\* names are tokens: 100+i positional-only, 200+i positional-or-keyword, 300+i keyword-only
Sig == [po |-> [i \in 1..npo |-> 100 + i], pk |-> [i \in 1..npk |-> 200 + i],
        ko |-> [i \in 1..nko |-> 300 + i],
        va |-> IF hva THEN <<400>> ELSE <<>>, vk |-> IF hvk THEN <<500>> ELSE <<>>]

Code ==
    LET h == H!Header(Sig, <<600, 601>>, kind) IN
    [argcount |-> h.argcount, posonly |-> h.posonly, kwonly |-> h.kwonly, varnames |-> h.varnames,
     flags |-> h.flags \cup {6},      \* NOFREE: no cells, no free variables
     freevars |-> <<>>, cellvars |-> <<>>, consts |-> <<900>>, const_is_str |-> <<FALSE>>]

SignatureMatches ==
    LET h == D!DecodeHeader(Code, Ver)
        a == h.args
    IN /\ Emit => PrintT("@@" \o ToJson(<<npo, npk, nko, hva, hvk, kind>>) \o "@@")
       /\ h.exc = ""
       /\ h.is_fn
       /\ D!ParamList(a) = H!Declared(Sig)
       /\ H!BindKinds(Code) = H!Declared(Sig)          \* the environment model is self-consistent
       /\ h.nparams = Len(H!Declared(Sig))
       /\ h.fn_type = kind
=============================================================================
