------------------------------ MODULE CPyHeader ------------------------------
(***************************************************************************)
(* Environment model: how CPython lays a function's parameters out in the  *)
(* code object's header, and how its calling convention reads them back    *)
(* (this reading is what inspect.signature reports).                       *)
(*                                                                         *)
(* A signature is [po, pk, va, ko, vk]: sequences of names (va, vk of      *)
(* length 0 or 1).  co_varnames begins with                                *)
(*     positional-only, positional-or-keyword, keyword-only, *args, **kw   *)
(* -- keyword-only names come BEFORE *args -- followed by the other locals.*)
(* Kinds are inspect's: 0 POSITIONAL_ONLY, 1 POSITIONAL_OR_KEYWORD,        *)
(* 2 VAR_POSITIONAL, 3 KEYWORD_ONLY, 4 VAR_KEYWORD.                        *)
(* Bound to the real compilers by harness/c04.py (clause ENV.decl).        *)
(***************************************************************************)
EXTENDS Integers, Sequences, FiniteSets

VarnamesLayout(sig) == sig.po \o sig.pk \o sig.ko \o sig.va \o sig.vk

\* flag bit indices: OPTIMIZED 0, NEWLOCALS 1, VARARGS 2, VARKEYWORDS 3,
\* GENERATOR 5, COROUTINE 7, ASYNC_GENERATOR 9
KindBits(kind) ==
    CASE kind = "GENERATOR" -> {5}
      [] kind = "COROUTINE" -> {7}
      [] kind = "ASYNC_GENERATOR" -> {9}
      [] OTHER -> {}

\* the header fields the compiler writes for a function with signature sig
Header(sig, locals, kind) ==
    [argcount |-> Len(sig.po) + Len(sig.pk),
     posonly |-> Len(sig.po),
     kwonly |-> Len(sig.ko),
     varnames |-> VarnamesLayout(sig) \o locals,
     flags |-> {0, 1} \cup (IF sig.va # <<>> THEN {2} ELSE {}) \cup (IF sig.vk # <<>> THEN {3} ELSE {})
               \cup KindBits(kind)]

\* the calling convention: <<name, kind>> in signature order, read from a header
BindKinds(h) ==
    LET v == h.varnames
        pos == [i \in 1..h.argcount |-> <<v[i], IF i <= h.posonly THEN 0 ELSE 1>>]
        kwo == [i \in 1..h.kwonly |-> <<v[h.argcount + i], 3>>]
        nva == IF 2 \in h.flags THEN 1 ELSE 0
        va == IF nva = 1 THEN <<<<v[h.argcount + h.kwonly + 1], 2>>>> ELSE <<>>
        vk == IF 3 \in h.flags THEN <<<<v[h.argcount + h.kwonly + nva + 1], 4>>>> ELSE <<>>
    IN pos \o va \o kwo \o vk

\* the same, straight from the declaration
Declared(sig) ==
    [i \in DOMAIN sig.po |-> <<sig.po[i], 0>>] \o [i \in DOMAIN sig.pk |-> <<sig.pk[i], 1>>]
    \o [i \in DOMAIN sig.va |-> <<sig.va[i], 2>>] \o [i \in DOMAIN sig.ko |-> <<sig.ko[i], 3>>]
    \o [i \in DOMAIN sig.vk |-> <<sig.vk[i], 4>>]

=============================================================================
