"""C15 - the JSON form is portable across interpreter versions.

TLC enumerates (producer, consumer, operation sequence) behaviours (MC_Hosts.tla); producers 3.7-3.10
write the documents of corpus code objects, snippets and model constants; every consumer 3.7-3.13
loads each document, applies the operations (load, normalise, dump, reload) and compares the final
canonical document with the producer's raw / normalised one; Trace_Hosts.tla validates."""
from __future__ import annotations

import json
from concurrent.futures import ThreadPoolExecutor

import c07
import corpus
import decode_family as df
from common import FOREIGN, SUPPORTED, Pool, Report, chunks, run_tlc, tla_unescape, tlc_prints, workdir

PID = "C15"


def run(tier: str, rep: Report):
    wd = workdir("c15")
    hosts = SUPPORTED + FOREIGN
    rep.assumptions += [
        "producers: pyenv 3.7.16, 3.8.18, 3.9.18, 3.10.13; consumers: those and 3.11.7, 3.12.1, 3.13.0 (they import "
        "code_data from the working tree; only the JSON codec and normalize are exercised there)",
        "documents are compared as JSON values (key order ignored) with frozenset element lists sorted",
    ]
    cfg = wd / "MC_Hosts.cfg"
    prods = "{" + ", ".join(f'"{v}"' for v in SUPPORTED) + "}"
    conss = "{" + ", ".join(f'"{v}"' for v in hosts) + "}"
    cfg.write_text(f"SPECIFICATION Spec\nCONSTANTS\n  Producers = {prods}\n  Consumers = {conss}\n  MaxOps = "
                   f"{4 if tier == 'quick' else 6}\n  Emit = TRUE\nINVARIANT EmitRun\n")
    r = run_tlc("MC_Hosts", str(cfg), workers=4, timeout=900)
    rep.add_tlc(r, "MC_Hosts")
    runs = [json.loads(tla_unescape(s)) for s in tlc_prints(r.out)]
    if not runs:
        rep.machinery_error(f"MC_Hosts emitted nothing: {r.out[-300:]}")
    seqs = sorted({tuple(x["ops"]) for x in runs})
    terms = c07.model_terms(rep, wd, 1)
    shapes = c07.model_shapes(rep, wd)
    shapes = [s for i, s in enumerate(shapes) if i % (6 if tier == "quick" else 2) == 0]
    rep.cov["document_shapes"] = len(shapes)
    if tier == "quick":
        # (a container that holds TWO NaN objects is always kept: its document lists both)
        terms = [t for k, t in enumerate(terms) if t[1][0] in ("atom", "complex") or k % 4 == 0 or "nan2" in json.dumps(t[1])]
    pool = Pool(hosts, per_version=2)
    files = []
    try:
        pargs = {}
        prod_files = {}
        for v in SUPPORTED:
            f = str(wd / f"docs-{v}.jsonl")
            prod_files[v] = f
            fs = corpus.sample_files(v, 15 if tier == "quick" else 150, "c15") + corpus.repo_examples()[:10]
            srcs = [{"id": f"sn:{i}", "src": s, "mode": m} for i, (m, s) in enumerate(df.SNIPPETS)]
            srcs += [{"id": f"ex:{n}", "src": s} for n, s in df.REPO_EXAMPLES.items()]
            import api_family
            import c14
            srcs += [{"id": f"base:{b['id']}", "src": b["src"]} for b in api_family.bases_for(v)]
            srcs += [{"id": f"tpl:{n}", "src": s} for n, s in c14.TEMPLATES]
            pargs[v] = [{"path": f, "files": fs, "sources": srcs, "terms": terms, "shapes": shapes}]
        res = pool.map_all("jsonw.produce", pargs)
        rep.cov["documents_per_producer"] = {v: res[v][0] for v in res}
        cargs = {h: [] for h in hosts}
        for h in hosts:
            for v in SUPPORTED:
                out = str(wd / f"cons-{v}-on-{h}.ndjson")
                files.append(out)
                cargs[h].append({"path_in": prod_files[v], "path_out": out, "runs": [{"ops": list(s)} for s in seqs]})
        cres = pool.map_all("jsonw.consume", cargs)
    finally:
        pool.close()
    nev = sum(sum(x) for x in cres.values())
    rep.cov["evaluations"] = nev
    rep.cov["distinct_nontrivial"] = sum(rep.cov["documents_per_producer"].values()) * len([h for h in hosts]) 
    rep.cov["rule"] = ("evaluations = (document, consumer, operation sequence) triples; non-trivial = (document, consumer) pairs "
                       "(each document is loaded on every host)")
    rep.cov["exhaustive"] = True
    rep.cov["explanation"] = (f"{len(SUPPORTED)} producers x {len(hosts)} consumers x {len(seqs)} operation sequences "
                              f"(all sequences of MC_Hosts up to {4 if tier == 'quick' else 6} operations ending in a dump)")
    rep.sample({"producer": "38", "consumer": "312", "ops": list(seqs[-1])})
    fails = df.validate(rep, files, "Trace_Hosts")

    def keyfn(evid, clauses):
        a, b = evid.split(">")
        return f"{PID}/{'+'.join(sorted(set(c.split('.', 1)[1] for c in clauses)))}/{a.split(':')[0]}/from{a.split(':')[1]}to{b.split(':')[0]}"

    def corrupt(e):
        e["same_raw"] = False
        e["same_norm"] = False
        return e

    df.negative_control(rep, files, "Trace_Hosts", corrupt, ("P15.same",))
    df.classify(rep, fails, ("P15.",), PID, keyfn)
