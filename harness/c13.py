"""C13 - blocks are exactly the jump-target partition of the instruction sequence."""
from __future__ import annotations

import c02
import decode_family as df
from common import Report

PID = "C13"


def keyfn(evid, clauses):
    kind = evid.split(":")[0]
    return f"{PID}/{'+'.join(sorted(c.split('.')[1] for c in clauses))}/{'synthetic' if kind == 'g' else 'compiled'}/ver{df.ver_of(evid)}"


def run(tier: str, rep: Report):
    c02.run(tier, rep, prefix=("P13.",), pid=PID, keyf=keyfn)
