"""C08 - CodeData is an immutable value: hash/equality contract and type-exact equality.

The constant terms of MC_Json.tla, with CPyConst!LibKey / CPyKey as the expected partitions, are
built as real constants by five routes each; all pairs x all route pairs are compared on the real
library (==, !=, hash, set and dict behaviour) and TLC (Trace_Values.tla) requires equality to be
exactly LibKey-equality; CPython's own _PyCode_ConstantKey partition is compared with CPyKey
(environment binding).  Every field of every dataclass in decoded data is probed for assignment and
deletion; identical compiled sources must decode to equal, hash-equal data.  Equal-implies-identical
code and hash agreement along API routes are covered by the histories of C06/C12 (P08.hash)."""
from __future__ import annotations

import c07
import decode_family as df
from common import SUPPORTED, Pool, Report, chunks, workdir

PID = "C08"


def run(tier: str, rep: Report):
    wd = workdir("c08")
    rep.assumptions += [
        "interpreters: pyenv 3.7.16, 3.8.18, 3.9.18, 3.10.13 (3.10 hashes NaN by identity)",
        "CPyKey is bound to ctypes.pythonapi._PyCode_ConstantKey on the real values at every run",
    ]
    terms = c07.model_terms(rep, wd, 1 if tier == "quick" else 2)
    if tier == "quick":
        # all atoms and complexes, plus every third composite (pairs are quadratic)
        terms = [t for k, t in enumerate(terms) if t[1][0] in ("atom", "complex") or k % 3 == 0]
    pool = Pool(SUPPORTED, per_version=4)
    files = []
    try:
        args = {}
        fargs = {}
        pargs = {}
        k = 0
        for v in SUPPORTED:
            # one group per worker: pairs are only formed inside a group, every group contains all atoms
            atoms = [t for t in terms if t[1][0] in ("atom", "complex")]
            rest = [t for t in terms if t[1][0] not in ("atom", "complex")]
            groups = [atoms + list(ch) for ch in chunks(rest, max(1, len(rest) // 4 + 1))] or [atoms]
            args[v] = []
            for g in groups:
                k += 1
                f = str(wd / f"pairs-{v}-{k}.ndjson")
                files.append(f)
                args[v].append({"terms": g, "path": f})
            k += 1
            f = str(wd / f"frozen-{v}-{k}.ndjson")
            files.append(f)
            srcs = [{"id": f"sn:{i}", "src": s, "mode": m} for i, (m, s) in enumerate(df.SNIPPETS)]
            srcs += [{"id": f"ex:{n}", "src": s} for n, s in df.REPO_EXAMPLES.items()]
            fargs[v] = [{"sources": srcs, "path": f}]
            import corpus
            from common import chunks as _ch
            pargs.setdefault(v, [])
            fs = corpus.sample_files(v, 12 if tier == "quick" else 120, "c08")
            for gi, ch in enumerate([fs[i::4] for i in range(4)]):
                k += 1
                f = str(wd / f"perturb-{v}-{k}.ndjson")
                files.append(f)
                pargs[v].append({"sources": srcs if gi == 0 else [], "files": ch, "path": f})
        res = pool.map_all("values.pairs_to_file", args)
        pool.map_all("values.frozen_to_file", fargs)
        pres = pool.map_all("values.perturb_to_file", pargs)
        rep.cov["code_objects_perturbed"] = sum(sum(x) for x in pres.values())
    finally:
        pool.close()
    npairs = sum(n * n for v in res.values() for n in v)
    rep.cov["evaluations"] = npairs * 25
    rep.cov["distinct_nontrivial"] = npairs
    rep.cov["rule"] = ("evaluations = ordered pairs of terms x 25 route pairs compared on the real library; non-trivial = "
                       "ordered pairs of terms (each a distinct (i, j) within a group that contains every atom)")
    rep.cov["exhaustive"] = True
    rep.cov["explanation"] = f"{len(terms)} constant terms of MC_Json; all pairs within groups; 5 construction routes per side"
    rep.sample({"term": terms[len(terms) // 2][1], "routes": ["direct", "fresh", "json", "code", "norm"]})
    fails = df.validate(rep, files, "Trace_Values")

    def keyfn(evid, clauses):
        return f"{PID}/{'+'.join(sorted(set(c.split('.', 1)[1] for c in clauses)))}/ver{evid.split(':')[1]}"

    def corrupt(e):
        if e.get("kind") != "pairs" or not e["eq"] or not e["eq"][0][2]:
            return None
        e["eq"][0][2] = e["eq"][0][2][1:]       # one pair that must be equal is reported unequal
        return e

    df.negative_control(rep, [f for f in files if "pairs-" in f], "Trace_Values", corrupt, ("P08.eq",), keep_first_line=True)
    df.classify(rep, fails, ("P08.",), PID, keyfn)
