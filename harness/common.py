"""Shared driver-side machinery (runs on the 3.11 tooling interpreter, stdlib only).

* interpreter table and worker pool (one JSON-lines subprocess per interpreter process)
* TLC runner (exhaustive / simulate / trace validation), statistics and PrintT parsing
* evidence writer, known-findings handling, VIOLATION / KNOWN-FINDING reporting
* scratch directories under /verif/.work, removed at exit
"""
from __future__ import annotations

import atexit
import hashlib
import json
import os
import re
import shutil
import subprocess
import sys
import threading
import time
from concurrent.futures import ThreadPoolExecutor
from pathlib import Path

VERIF = Path(__file__).resolve().parent.parent
REPO = Path(os.environ.get("VERIF_REPO", "/repo"))
SPEC = VERIF / "spec"
HARNESS = VERIF / "harness"
# mutation self-tests point these elsewhere so that the committed evidence is never overwritten
EVIDENCE = Path(os.environ.get("VERIF_EVIDENCE", str(VERIF / "evidence")))
REPLAYS = Path(os.environ.get("VERIF_REPLAYS", str(VERIF / "replays")))
KNOWN = VERIF / "known_findings.jsonl"
GUARD = "CODE_DATA_VERIF"

PYENV = Path("/root/.pyenv/versions")
INTERP = {
    "37": PYENV / "3.7.16/bin/python",
    "38": PYENV / "3.8.18/bin/python",
    "39": PYENV / "3.9.18/bin/python",
    "310": PYENV / "3.10.13/bin/python",
    "311": PYENV / "3.11.7/bin/python",
    "312": PYENV / "3.12.1/bin/python",
    "313": PYENV / "3.13.0/bin/python",
}
SUPPORTED = ["37", "38", "39", "310"]
FOREIGN = ["311", "312", "313"]
TLA_JAR = "/opt/veriftools/tla/tla2tools.jar:/opt/veriftools/tla/CommunityModules-deps.jar"

NCPU = os.cpu_count() or 4


class MachineryError(Exception):
    """Something in /verif (or the sandbox) is broken; never a verdict about /repo."""


def seed() -> int:
    try:
        return int(os.environ.get("VERIF_SEED", "0"))
    except ValueError:
        return 0


# --------------------------------------------------------------------------- scratch

_work_dirs: list[Path] = []


def workdir(name: str) -> Path:
    d = VERIF / ".work" / f"{name}-{os.getpid()}"
    if d.exists():
        shutil.rmtree(d)
    d.mkdir(parents=True)
    _work_dirs.append(d)
    return d


@atexit.register
def _cleanup() -> None:
    if os.environ.get("VERIF_KEEP"):
        return
    for d in _work_dirs:
        shutil.rmtree(d, ignore_errors=True)
    try:
        (VERIF / ".work").rmdir()
    except OSError:
        pass


# --------------------------------------------------------------------------- workers


class Worker:
    """A long-lived subprocess of one interpreter running harness/worker.py."""

    def __init__(self, ver: str, extra_env: dict | None = None):
        self.ver = ver
        exe = INTERP[ver]
        if not exe.exists():
            raise MachineryError(f"interpreter for {ver} missing: {exe}")
        env = dict(os.environ)
        env.update(
            PYTHONDONTWRITEBYTECODE="1",
            PYTHONHASHSEED="0",
            PYTHONIOENCODING="utf-8",
            VERIF_REPO=str(REPO),
            VERIF_HARNESS=str(HARNESS),
        )
        env[GUARD] = "1"
        env.pop("PYTHONPATH", None)
        if extra_env:
            env.update(extra_env)
        self.p = subprocess.Popen(
            [str(exe), "-X", "utf8", "-u", str(HARNESS / "worker.py")],
            stdin=subprocess.PIPE,
            stdout=subprocess.PIPE,
            stderr=subprocess.PIPE,
            env=env,
            cwd=str(VERIF),
        )
        self.lock = threading.Lock()
        self._stderr: list[str] = []
        threading.Thread(target=self._drain, daemon=True).start()
        hello = self._read()
        if not hello or hello.get("hello") != ver:
            raise MachineryError(f"worker {ver} failed to start: {hello} {self.stderr_tail()}")

    def _drain(self):
        for line in self.p.stderr:
            self._stderr.append(line.decode("utf-8", "replace"))
            if len(self._stderr) > 200:
                del self._stderr[:100]

    def stderr_tail(self) -> str:
        return "".join(self._stderr[-30:])

    def _read(self):
        line = self.p.stdout.readline()
        if not line:
            return None
        return json.loads(line)

    def call(self, cmd: str, **kw):
        """Returns the worker's reply dict: {"ok": True, "r": ...} or {"ok": False, "exc":..}"""
        with self.lock:
            msg = json.dumps({"cmd": cmd, "a": kw})
            try:
                self.p.stdin.write(msg.encode("utf-8") + b"\n")
                self.p.stdin.flush()
                rep = self._read()
            except (BrokenPipeError, OSError):
                rep = None
            if rep is None:
                raise MachineryError(
                    f"worker {self.ver} died on {cmd}: rc={self.p.poll()} {self.stderr_tail()}"
                )
            return rep

    def req(self, cmd: str, **kw):
        """call() that treats a harness-side exception as a machinery error."""
        rep = self.call(cmd, **kw)
        if not rep.get("ok"):
            raise MachineryError(f"worker {self.ver} {cmd}: {rep.get('exc')}\n{rep.get('tb', '')}")
        return rep["r"]

    def close(self):
        try:
            self.p.stdin.close()
            self.p.wait(timeout=5)
        except Exception:
            self.p.kill()


class Pool:
    """n workers per version; map tasks over them in parallel."""

    def __init__(self, versions, per_version: int | None = None, extra_env=None, hashseeds=False, optimized_last=True):
        """hashseeds: worker k of every version runs with PYTHONHASHSEED=k (default: all with 0);
        optimized_last: the last worker of every version (if there are at least two) runs with PYTHONOPTIMIZE=1
        (`python -O`: assert statements are stripped from the library), so a share of every check's cases sees the
        library in that mode"""
        self.versions = list(versions)
        if per_version is None:
            per_version = max(1, NCPU // max(1, len(self.versions)))
        self.workers: dict[str, list[Worker]] = {}

        def env_of(k):
            env = dict(extra_env or {})
            if hashseeds:
                env["PYTHONHASHSEED"] = str(k)
            if optimized_last and per_version >= 2 and k == per_version - 1:
                env["PYTHONOPTIMIZE"] = "1"
            return env or None

        with ThreadPoolExecutor(max_workers=32) as ex:
            futs = {
                v: [ex.submit(Worker, v, env_of(k)) for k in range(per_version)]
                for v in self.versions
            }
            for v, fs in futs.items():
                self.workers[v] = [f.result() for f in fs]

    def map(self, ver: str, cmd: str, arglist: list[dict], strict=True):
        """Run cmd(**args) for each args on the workers of `ver`; order preserved."""
        ws = self.workers[ver]
        out = [None] * len(arglist)

        def run(wi):
            w = ws[wi]
            for i in range(wi, len(arglist), len(ws)):
                out[i] = w.req(cmd, **arglist[i]) if strict else w.call(cmd, **arglist[i])

        with ThreadPoolExecutor(max_workers=len(ws)) as ex:
            list(ex.map(run, range(len(ws))))
        return out

    def map_all(self, cmd: str, per_ver_args: dict[str, list[dict]], strict=True):
        res = {}
        with ThreadPoolExecutor(max_workers=len(per_ver_args) or 1) as ex:
            futs = {v: ex.submit(self.map, v, cmd, a, strict) for v, a in per_ver_args.items()}
            for v, f in futs.items():
                res[v] = f.result()
        return res

    def one(self, ver: str) -> Worker:
        return self.workers[ver][0]

    def close(self):
        for ws in self.workers.values():
            for w in ws:
                w.close()


# --------------------------------------------------------------------------- TLC


class TLCResult:
    def __init__(self):
        self.rc = 0
        self.out = ""
        self.generated = 0
        self.distinct = 0
        self.depth = 0
        self.violated: list[str] = []
        self.errors: list[str] = []
        self.prints: list[str] = []
        self.coverage: dict[str, tuple[int, int]] = {}
        self.wall = 0.0

    @property
    def ok(self):
        return self.rc == 0 and not self.violated and not self.errors


_STATS = re.compile(r"(\d+) states generated, (\d+) distinct states found")
_DEPTH = re.compile(r"The depth of the complete state graph search is (\d+)")
_COV = re.compile(r"^<(\w+) line \d+, col \d+ to line \d+, col \d+ of module (\w+)>: (\d+):(\d+)")


def run_tlc(
    module: str,
    cfg: str | None = None,
    *,
    cwd: Path = SPEC,
    workers: int | str = "auto",
    env: dict | None = None,
    timeout: int = 1800,
    simulate: str | None = None,
    depth: int | None = None,
    seed_: int | None = None,
    coverage: bool = False,
    deadlock: bool = False,
    heap: str = "4g",
    extra: list[str] | None = None,
    metadir: Path | None = None,
    dfs: bool = False,
) -> TLCResult:
    """Run TLC; never raises on a property violation (see TLCResult.violated)."""
    md = metadir or workdir(f"tlc-{module}-{threading.get_ident()}")
    jopts = [f"-Xmx{heap}", "-XX:+UseParallelGC"]
    if dfs:
        jopts.append("-Dtlc2.tool.queue.IStateQueue=StateDeque")
    cmd = ["java", *jopts, "-cp", TLA_JAR, "tlc2.TLC"]
    cmd += ["-workers", str(workers), "-metadir", str(md), "-noGenerateSpecTE"]
    if cfg:
        cmd += ["-config", cfg]
    if not deadlock:
        cmd += ["-deadlock"]
    if simulate:
        cmd += ["-simulate", simulate]
    if depth:
        cmd += ["-depth", str(depth)]
    if seed_ is not None:
        cmd += ["-seed", str(seed_)]
    if coverage:
        cmd += ["-coverage", "1"]
    if extra:
        cmd += extra
    cmd.append(module)
    e = dict(os.environ)
    e.pop("JAVA_TOOL_OPTIONS", None)
    if env:
        e.update({k: str(v) for k, v in env.items()})
    t0 = time.time()
    r = TLCResult()
    try:
        p = subprocess.run(
            cmd, cwd=str(cwd), env=e, capture_output=True, timeout=timeout, text=True, errors="replace"
        )
        r.rc = p.returncode
        r.out = p.stdout + p.stderr
    except subprocess.TimeoutExpired as te:
        r.rc = 124
        o = te.stdout or b""
        r.out = o.decode("utf-8", "replace") if isinstance(o, bytes) else str(o)
        r.errors.append(f"TLC timeout after {timeout}s")
    r.wall = time.time() - t0
    for line in r.out.splitlines():
        m = _STATS.search(line)
        if m:
            r.generated, r.distinct = int(m.group(1)), int(m.group(2))
        m = _DEPTH.search(line)
        if m:
            r.depth = int(m.group(1))
        if line.startswith("Error: Invariant ") and "is violated" in line:
            r.violated.append(line.split()[2])
        elif line.startswith("Error: Action property") or line.startswith("Error: Temporal properties"):
            r.violated.append(line)
        elif line.startswith("Error:") and "is violated" not in line:
            r.errors.append(line)
        elif "Assumption" in line and "is false" in line:
            r.errors.append(line)
        m = _COV.match(line)
        if m:
            r.coverage[m.group(1)] = (int(m.group(3)), int(m.group(4)))
    shutil.rmtree(md, ignore_errors=True)
    return r


def tlc_prints(out: str) -> list:
    """Extract values printed with PrintT(ToJson(x)) / PrintT(<<"TAG", ...>>) as strings.

    JSON payloads are printed by the specs as  "@@<json>@@"  (a TLA+ string), one per line
    even with several TLC workers because each is a single println.
    """
    res = []
    for m in re.finditer(r'"@@(.*?)@@"', out):
        s = m.group(1)
        res.append(s)
    return res


def tla_unescape(s: str) -> str:
    return s.replace('\\"', '"').replace("\\\\", "\\")


# --------------------------------------------------------------------------- findings / evidence


def load_known() -> list[dict]:
    res = []
    if KNOWN.exists():
        for line in KNOWN.read_text().splitlines():
            line = line.strip()
            if line and not line.startswith("#"):
                res.append(json.loads(line))
    return res


class Report:
    """Collects violations for one property run and produces the final verdict."""

    def __init__(self, pid: str, tier: str):
        self.pid = pid
        self.tier = tier
        self.t0 = time.time()
        self.violations: list[dict] = []
        self.machinery: list[str] = []
        self.cov: dict = {
            "evaluations": 0,
            "distinct_nontrivial": 0,
            "states": 0,
            "transitions": 0,
            "traces_validated_against_impl": 0,
            "samples": [],
        }
        self.assumptions: list[str] = []
        self.known = [k for k in load_known() if k.get("property") == pid]

    # -- accounting
    def add_tlc(self, r: TLCResult, what: str):
        self.cov["states"] += r.distinct
        self.cov["transitions"] += r.generated
        self.cov.setdefault("tlc_runs", []).append(
            {"model": what, "distinct": r.distinct, "generated": r.generated, "depth": r.depth, "wall_s": round(r.wall, 1)}
        )
        if r.errors or (r.rc not in (0,) and not r.violated):
            self.machinery.append(f"TLC {what}: rc={r.rc} {r.errors[:3]} :: {r.out[-1500:]}")

    def sample(self, x, limit=6):
        if len(self.cov["samples"]) < limit:
            self.cov["samples"].append(x)

    def violation(self, key: str, what: str, case: dict):
        """key: deterministic signature (failing clause + discriminating features)."""
        self.violations.append({"key": key, "what": what, "case": case})

    def machinery_error(self, msg: str):
        self.machinery.append(msg)

    # -- verdict
    def finish(self) -> int:
        wall = time.time() - self.t0
        new = []
        known_hit: dict[str, dict] = {}
        for v in self.violations:
            k = next(
                (k for k in self.known if k.get("status") == "known" and _key_match(k["key"], v["key"])),
                None,
            )
            if k:
                known_hit.setdefault(k["key"], {"k": k, "n": 0, "ex": v})["n"] += 1
            else:
                new.append(v)
        lines = []
        for kk, h in known_hit.items():
            lines.append(f"KNOWN-FINDING: property={self.pid} {h['k']['what']} [key={kk}; {h['n']} case(s) this run]")
        seen = set()
        for v in new:
            if v["key"] in seen:
                continue
            seen.add(v["key"])
            path = write_replay(self.pid, v)
            lines.append(f"VIOLATION property={self.pid} replay={path}")
            lines.append(f"  key={v['key']} :: {v['what']}")
        self.cov["known_findings_hit"] = {k: h["n"] for k, h in known_hit.items()}
        self.cov["violation_keys"] = sorted(seen)
        if self.machinery:
            self.cov["machinery_errors"] = self.machinery[:10]
        ev = {
            "property_id": self.pid,
            "tier": self.tier,
            "seed": seed(),
            "level": "model_checking",
            "coverage": self.cov,
            "assumptions": self.assumptions,
            "wall_s": round(wall, 2),
            "violations": len(seen),
        }
        EVIDENCE.mkdir(exist_ok=True)
        tmp = EVIDENCE / f".{self.pid}.json.tmp"
        tmp.write_text(json.dumps(ev, indent=1, sort_keys=True, default=str))
        tmp.replace(EVIDENCE / f"{self.pid}.json")
        for l in lines:
            print(l)
        if self.machinery:
            for m in self.machinery[:10]:
                print(f"MACHINERY-ERROR property={self.pid} {m}", file=sys.stderr)
            print(f"MACHINERY property={self.pid}: {len(self.machinery)} machinery error(s); no verdict")
            return 2 if not seen else 1
        print(
            f"{self.pid} {self.tier}: states={self.cov['states']} traces={self.cov['traces_validated_against_impl']} "
            f"evaluations={self.cov['evaluations']} new_violations={len(seen)} known={len(known_hit)} wall={wall:.1f}s"
        )
        return 1 if seen else 0


def _key_match(pattern: str, key: str) -> bool:
    return pattern == key


def write_replay(pid: str, v: dict) -> str:
    d = REPLAYS / pid
    d.mkdir(parents=True, exist_ok=True)
    blob = json.dumps(v, sort_keys=True, default=str)
    h = hashlib.sha1(blob.encode()).hexdigest()[:12]
    p = d / f"{h}.json"
    p.write_text(json.dumps(v, indent=1, sort_keys=True, default=str))
    return str(p)


def chunks(xs, n):
    for i in range(0, len(xs), n):
        yield xs[i : i + n]


def write_ndjson(path: Path, events):
    with open(path, "w") as f:
        for e in events:
            f.write(json.dumps(e, separators=(",", ":")))
            f.write("\n")
