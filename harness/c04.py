"""C04 - function signature, docstring and kind agree with CPython's calling convention.

TLC enumerates every signature shape (MC_Signature.tla) and checks the reference header decoder on
the header CPython writes for it; every shape is rendered as source for each scope kind and
docstring shape, compiled on 3.7-3.10 and the real library's answer is validated by Trace_Decode.tla
against the calling-convention reading of the compiled header, inspect.signature, __doc__ and
inspect.is*function (clauses P04.*), together with the corpus' function-like code objects."""
from __future__ import annotations

import json
from concurrent.futures import ThreadPoolExecutor

import decode_family as df
from common import NCPU, SUPPORTED, Pool, Report, run_tlc, tla_unescape, tlc_prints, workdir

PID = "C04"
DOCS = {
    "none": [],
    "plain": ["'doc'"],
    "empty": ["''"],
    "nonstr": ["1"],
    "fstring": ["f'doc'"],
    "surrogate": ["'\\udc80 text'"],
    "bytes": ["b'doc'"],
    "concat": ["'a' 'b'"],
}


def render(shape, doc: str, lam=False):
    npo, npk, nko, hva, hvk, kind = shape
    parts = []
    decl = []
    for i in range(npo):
        parts.append(f"p{i + 1}")
        decl.append([f"p{i + 1}", 0])
    if npo:
        parts.append("/")
    for i in range(npk):
        parts.append(f"a{i + 1}=None" if i == npk - 1 and not lam else f"a{i + 1}")
        decl.append([f"a{i + 1}", 1])
    if npk and parts[-1].endswith("=None") and False:
        pass
    if hva:
        parts.append("*args")
        decl.append(["args", 2])
    elif nko:
        parts.append("*")
    for i in range(nko):
        parts.append(f"k{i + 1}")
        decl.append([f"k{i + 1}", 3])
    if hvk:
        parts.append("**kw")
        decl.append(["kw", 4])
    # a default on a1.. would force defaults on later positional parameters: only the last one gets it
    sig = ", ".join(parts)
    if lam:
        body = {"": "0", "GENERATOR": "(yield)"}[kind]
        return f"f = lambda {sig}: {body}\n", decl, "<lambda>"
    lines = list(DOCS[doc])
    if kind in ("GENERATOR", "ASYNC_GENERATOR"):
        lines.append("yield 1")
    lines.append("loc = 1")
    lines.append("return" if kind != "" else "return loc")
    if kind == "ASYNC_GENERATOR":
        lines[-1] = "return"
    head = ("async def" if kind in ("COROUTINE", "ASYNC_GENERATOR") else "def") + f" f({sig}):"
    return head + "\n" + "".join("    " + x + "\n" for x in lines), decl, "f"


SCOPES = [
    ("listcomp", "x = [i for i in y]\n", [[".0", 1]], "<listcomp>"),
    ("genexpr", "x = (i for i in y)\n", [[".0", 1]], "<genexpr>"),
    ("dictcomp", "x = {i: i for i in y}\n", [[".0", 1]], "<dictcomp>"),
    ("setcomp", "x = {i for i in y}\n", [[".0", 1]], "<setcomp>"),
    ("asyncgenexpr", "async def g():\n    return (i async for i in y)\n", [[".0", 1]], "<genexpr>"),
    ("strcomp", "x = ['a' for i in y]\n", [[".0", 1]], "<listcomp>"),
]


def run(tier: str, rep: Report):
    wd = workdir("c04")
    rep.assumptions += [
        "interpreters: pyenv 3.7.16, 3.8.18, 3.9.18, 3.10.13 (positional-only parameters do not exist as input on 3.7)",
        "oracle for kinds: the calling convention read from the compiled header (what inspect._signature_from_function "
        "does), cross-checked with inspect.signature where every name is an identifier; __doc__ and inspect.is*function "
        "of a FunctionType built from the code object",
    ]
    N = 2 if tier == "quick" else 3
    shapes = {}

    def mc(v):
        cfg = wd / f"MC_Signature_{v}.cfg"
        cfg.write_text(f'SPECIFICATION Spec\nCONSTANTS\n  N = {N}\n  Ver = "{v}"\n  Emit = TRUE\nINVARIANT SignatureMatches\n')
        return v, run_tlc("MC_Signature", str(cfg), workers=2, extra=["-continue"], timeout=900)

    with ThreadPoolExecutor(max_workers=4) as ex:
        for v, r in ex.map(mc, SUPPORTED):
            r.errors = [e for e in r.errors if "behavior up to this point" not in e]
            rep.add_tlc(r, f"MC_Signature[{v},N={N}]")
            shapes[v] = [json.loads(tla_unescape(s)) for s in tlc_prints(r.out)]
            rep.cov.setdefault("model_invariant_violations", {})[v] = len(r.violated)
            if not shapes[v]:
                rep.machinery_error(f"MC_Signature[{v}] emitted nothing: {r.out[-400:]}")
    extra = {}
    nsrc = 0
    for v in SUPPORTED:
        srcs = []
        for i, sh in enumerate(shapes[v]):
            docs = list(DOCS) if tier == "thorough" or i % 7 == 0 else ["none", "plain"]
            for d in docs:
                src, decl, target = render(sh, d)
                srcs.append({"id": f"sig:{i}:{d}", "src": src, "decl": decl, "target": target})
            if sh[5] in ("", "GENERATOR"):
                src, decl, target = render(sh, "none", lam=True)
                srcs.append({"id": f"sig:{i}:lambda", "src": src, "decl": decl, "target": target})
        for name, src, decl, target in SCOPES:
            srcs.append({"id": f"scope:{name}", "src": src, "decl": decl, "target": target})
        # functions compiled under a future statement the data model has no field for (known finding, see C01)
        srcs.append({"id": "future:barry", "src": "from __future__ import barry_as_FLUFL\ndef f(a, *b):\n    return a\ng = lambda: 0\n"})
        extra[v] = srcs
        nsrc += len(srcs)
    rep.cov["evaluations"] = nsrc
    rep.cov["distinct_nontrivial"] = sum(1 for v in SUPPORTED for sh in shapes[v] if sum(sh[:3]) + sh[3] + sh[4] >= 2)
    rep.cov["rule"] = ("cases = (version, signature shape, docstring shape / scope) renderings, all distinct; non-trivial "
                       "(counted per shape) = at least two parameters")
    rep.cov["exhaustive"] = True
    rep.cov["explanation"] = (f"all shapes with 0..{N} positional-only (3.8+), 0..{N} positional-or-keyword, 0..{N} "
                              "keyword-only parameters, *args and **kw present/absent, 4 function kinds; rendered as def / "
                              "async def / lambda with 8 docstring shapes; comprehension scopes; plus the corpus")
    # the four workers of a version run with PYTHONHASHSEED 0..3 and every rendered signature goes to each of them
    pool = Pool(SUPPORTED, per_version=4, hashseeds=True)
    rep.assumptions.append("every rendered signature is decoded under PYTHONHASHSEED 0, 1, 2 and 3 (set iteration order)")
    try:
        files = df.collect_events(rep, tier, wd, pool, {}, extra_sources=extra, extra_on_every_worker=True)
    finally:
        pool.close()
    fails = df.validate(rep, files)

    barry_only = {}
    for fn_ in files:
        if "xsrc-" in fn_ or "src-" in fn_:
            with open(fn_) as fh:
                for line in fh:
                    if '"future:barry' in line[:60]:
                        e_ = json.loads(line)
                        ex_ = e_["lib"].get("exc", "")
                        barry_only[e_["id"]] = (e_["lib"].get("exc_type") == "ValueError" and "barry_as_FLUFL" in ex_
                                                and ex_.count("'") == 2)

    def keyfn(evid, clauses):
        if evid.startswith("future:barry") and clauses == ["P04.decodes"] and barry_only.get(evid):
            # from_code refuses the function, naming exactly this flag (same root cause as the known C01 finding)
            return f"{PID}/decodes/from_code-future-flag-barry_as_FLUFL"
        return f"{PID}/{'+'.join(sorted(c.split('.')[1] for c in clauses))}/{evid.split(':')[0]}/ver{df.ver_of(evid)}"

    def corrupt(e):
        if not e.get("insp", {}).get("ok") or not e["lib"].get("params") or e["lib"].get("exc"):
            return None
        e["lib"]["params"][0][1] = (e["lib"]["params"][0][1] + 1) % 5
        return e

    df.negative_control(rep, files, "Trace_Decode", corrupt, ("P04.params",))
    df.classify(rep, fails, ("P04.",), PID, keyfn)
    # positional-only renderings are not programs for 3.7 (the model emits none for it); generated corpus programs
    # (hypothesmith, thorough tier) may use newer syntax: only the check's own renderings count here
    own = [u for u in getattr(rep, "_uncompilable", []) if u.startswith(("sig:", "scope:"))]
    if len(own) > 8 * 4:
        rep.machinery_error(f"{len(own)} rendered signature sources did not compile: {own[:3]}")
    for v in ("38",):
        for sh in shapes[v][:: max(1, len(shapes[v]) // 3)][:3]:
            rep.sample({"ver": v, "shape[npo,npk,nko,va,vk,kind]": sh, "source": render(sh, "plain")[0]})
