"""Shared pipeline of the decoder-side checks (C02, C04, C09, C13):

  bounded model MC_Decode (TLC)  ->  completed word-code streams  ->  real code objects on 3.7-3.10
  corpus + snippets              ->  really compiled code objects
  both  ->  events (CPython's reading next to the library's output)  ->  TLC, Trace_Decode.tla

Every property module picks its own clause prefix (P02., P13., ...) out of the failures.
"""
from __future__ import annotations

import json
import random
from concurrent.futures import ThreadPoolExecutor

import corpus
from common import (NCPU, SUPPORTED, Pool, Report, chunks, run_tlc, seed, tla_unescape, tlc_prints, workdir)

NL = "\n"
# the EXAMPLES of /repo/code_data/_test.py (copied: that module needs hypothesmith to import)
REPO_EXAMPLES = {
    "blank": "\n",
    "variable": "a",
    "fn": "def fn(): pass",
    "class": "class A: pass",
    "duplicate class": "class A: pass\nclass A: pass\n",
    "long line jump": f"x = 1{NL * 127}\ny=2",
    "long jump": f'x = x or {"-x" * 100}\nwhile x:\n    x -= 1',
    "long line and bytecode jump": "y =" + ("-x" * 100) + ("\n" * 300) + "z = y",
    "negative line jump": "f(\n1)",
    "long negative jump": "f(" + "\n" * 256 + "1)",
    "multiple returns": "def _():\n    return\n    return\n",
    "complex": "_ = 0j",
    "unused cellvar": "\ndef fn():\n    return\n    def i():\n        i()\n",
    "bpo-46724": "while not x < y < z:\n    pass",
}
SNIPPETS = [
    ("eval", "a + b * 2"), ("eval", "[x for x in y if x]"), ("eval", "lambda a, *b, c=1, **d: (a, b, c, d)"),
    ("single", "a"), ("single", "x = 1; x"), ("single", "for i in x: i"),
    ("exec", "def f(a, b=1, *c, d, e=2, **g):\n    'doc'\n    return a, b, c, d, e, g\n"),
    ("exec", "def f(a):\n    def g():\n        return a\n    return g\n"),
    ("exec", "async def f(a):\n    async for i in a:\n        yield i\n"),
    ("exec", "async def f(a):\n    await a\n"),
    ("exec", "def f():\n    yield 1\n"),
    ("exec", "class A:\n    'doc'\n    def m(self): return __class__\n"),
    ("exec", "x = [i for i in range(3)]\ny = {i: i for i in x}\nz = (i for i in x)\n"),
    ("exec", "try:\n    a\nexcept E as e:\n    b\nfinally:\n    c\n"),
    ("exec", "with a as b:\n    c\n"),
    ("exec", "from __future__ import annotations\ndef f(a: int) -> int: return a\n"),
    ("exec", "x = 1e999 - 1e999\ny = 1e999 - 1e999\nz = x, y, x\n"),
    ("exec", "def f(x):\n    return 'a' if x else 'b'\n"),
    ("exec", "f = lambda: 'text'\n"),
    ("exec", "def f(a=1,\n" + "\n" * 126 + "  b=2): pass\n"),
    # rare shapes (each one is the trigger of a defect found or of a seeded change)
    ("exec", "def f():\n    ''\n    return 'x'\nclass K:\n    ''\n    def m(self):\n        ''\n"),
    ("exec", "def outer(y):\n    def f(x):\n        if 0:\n            lambda: x\n        return y\n    return f\n"),
    ("exec", "def f(x):\n    while x:\n        x -= 1\n        if x == 3:\n            continue\n    return x\n"),
    ("exec", "def f(a):\n    for i in a:\n        try:\n            if i: return i\n            if i == 2: break\n            continue\n        finally:\n            a = 1\n"),
    ("exec", "def f(a, b, /, c):\n    x = 1\n    return x + c\n"),
    ("exec", "def f(xs):\n    return xs[-1], xs[-2], -1.0, -2.0, '/', b'/', 1, True, 1.0, 0.0, -0.0\n"),
    ("exec", "def f(a):\n" + "".join("    a = a + 1\n" for _ in range(90)) + "    while True:\n        a += 1\n"),
    ("exec", "f = [lambda: 0, lambda: 0]; g = lambda: (lambda: (1)); h = lambda a: (lambda: (\n 1))\n"),
    ("exec", "def f(a, *args, key=None, **kw):\n    return a, args, key, kw\n"),
    ("exec", "x = '\\udc80'; y = '\\ud800\\udc00'; z = '\\ud800\\U0001fad0'\ndef f():\n    '\\udc80 doc'\n"),
    # comprehension scopes whose first constant is neither None nor a string and was optimised away; the first LOADED
    # constant is a string at index 1 (the encoder's "prepend None" rule must not apply)
    ("exec", "x = []\na = ['a' for c in x if 5]\nb = {c: 'a' for c in x if 1}\nc = ['a' if 5 else 'b' for c in x]\nd = list('a' for c in x if 2.5)\n"),
    # one source line whose bytecode is an exact multiple of the line-table limits (254 / 255 bytes, 508 / 510)
    ("exec", "x = [" + ", ".join(["a"] * 125) + "]\ny = 1\n"),
    ("exec", "x = [" + ", ".join(["a"] * 252) + "]\ny = 1\n"),
    ("exec", "x = [" + ", ".join(["a"] * 253) + "]\ny = 1\nz = [" + ", ".join(["a"] * 508) + "]\nw = 2\n"),
    # dead lines after the final return (<=3.9: an _additional_line with additional offsets)
    ("exec", "def f():\n    return 1\n    x = 2\n    y = 3\n"),
    # co_consts holds two equal tuples on <=3.9 (folded defaults) and both are referenced, one of them again later
    ("exec", "x = (1, 2)\ndef f(a=1, b=2):\n    return a + b\ny = (1, 2)\nz = (1, 2)\n"),
    # one name that is a cell AND a free variable of the same code object (the class body of A)
    ("exec", "def outer():\n    __class__ = 'own'\n    class A:\n        y = __class__\n        def g(self):\n            return super().g()\n    return A\n"),
    # class bodies that own a cell (__class__) AND read variables of enclosing functions (LOAD_CLASSDEREF indexes
    # cellvars + freevars), one nested in another; a function whose parameter is a cell next to free variables
    ("exec", "def f(a, b):\n    class C:\n        x = a\n        y = b\n        def m(self):\n            return super().m()\n    return C\n"),
    ("exec", "def f(a, b):\n    class C:\n        x = b\n        class D:\n            z = a, b\n            def m(self): return __class__, a\n        def m(self): return __class__\n    return C\n"),
    ("exec", "def f(a, b, c):\n    def g(b, d):\n        def h(): return a, b, c, d\n        return h, c, a\n    return g\n"),
    ("exec", "def f(x):\n" + "".join("    x = x * 2\n" for _ in range(60)) + "    for i in x:\n        if i:\n            break\n    else:\n        return 0\n    return i\n"),
]


SMALL_SCOPES = {"shadow": ('"EXT", "JABS", "FREE", "NOARG"', "{0, 1, 2}"), "dup": ('"EXT", "CONST", "NOARG"', "{0, 1, 2}"),
                # two EXTENDED_ARG prefixes in the quick tier, too (operands >= 65 536)
                "wide": ('"EXT", "RAW", "NOARG"', "{0, 1, 2}")}


def model_cfg(ver: str, tier: str, wd, emit=True, scope="module") -> str:
    if tier == "quick":
        mu, mp, by = 3, 1, "{0, 1, 2, 4}"
    else:
        mu, mp, by = 4, 2, "{0, 1, 2, 4}"
    classes = '"EXT", "JABS", "JREL", "NAME", "LOCAL", "FREE", "CONST", "NOARG", "RAW"'
    if scope in SMALL_SCOPES:
        # only what the shared cell / free name (the duplicated constant) can interact with, but 4 units in both tiers
        classes, by, mu, mp = SMALL_SCOPES[scope] + (4, 2 if scope == "wide" else 1)
    fn = wd / f"MC_Decode_{ver}_{tier}_{scope}.cfg"
    fn.write_text(f"""SPECIFICATION Spec
CONSTANTS
  Ver = "{ver}"
  MaxUnits = {mu}
  MaxPrefix = {mp}
  Classes = {{{classes}}}
  ByteVals = {by}
  Scope = "{scope}"
  Emit = {"TRUE" if emit else "FALSE"}
INVARIANT DecodeModel
""")
    return str(fn)


def run_models(rep: Report, tier: str, wd, versions=SUPPORTED):
    """MC_Decode per version; returns {ver: [case]} for replay"""
    cases = {v: [] for v in versions}

    def mc(job):
        v, scope = job
        return v, scope, run_tlc("MC_Decode", model_cfg(v, tier, wd, scope=scope), workers=max(2, NCPU // len(versions)),
                                 timeout=3000, extra=["-continue"], heap="6g")

    jobs = [(v, "module") for v in versions] + [(v, sc) for sc in SMALL_SCOPES for v in versions]
    with ThreadPoolExecutor(max_workers=len(versions)) as ex:
        for v, scope, r in ex.map(mc, jobs):
            r.errors = [e for e in r.errors if "behavior up to this point" not in e]
            rep.add_tlc(r, f"MC_Decode[{v},{tier},{scope}]")
            n = nbad = 0
            tag = "" if scope == "module" else scope[0]
            for s in tlc_prints(r.out):
                ver, units, instrs, starts, bad = json.loads(tla_unescape(s))
                n += 1
                if bad:
                    nbad += 1
                cases[v].append({"id": f"g:{v}:{tag}{n}", "units": [[u[0], u[2]] for u in units], "alt": n % 2 == 1,
                                 "model_bad": bad, "scope": scope})
            rep.cov.setdefault("model_states_emitted", {})[v + tag] = n
            rep.cov.setdefault("model_states_violating_DecodeModel", {})[v + tag] = nbad
            if n == 0:
                rep.machinery_error(f"MC_Decode[{v},{scope}] emitted nothing: {r.out[-500:]}")
    return cases


def collect_events(rep: Report, tier: str, wd, pool: Pool, gen_cases, extra_sources=None, with_corpus=True,
                   replay_limit=None, extra_on_every_worker=False):
    """returns the list of ndjson files"""
    files = []
    jobs = {v: [] for v in pool.versions}
    k = 0
    rnd = random.Random(seed() + 2)
    for v in pool.versions:
        gc = gen_cases.get(v, [])
        if replay_limit and len(gc) > replay_limit:
            gc = rnd.sample(gc, replay_limit)
        rep.cov["evaluations"] += len(gc)
        for ch in chunks(gc, 2500):
            k += 1
            f = str(wd / f"gen-{v}-{k}.ndjson")
            files.append(f)
            jobs[v].append(("decode.units_to_file", {"cases": [{kk: c.get(kk, False) for kk in ("id", "units", "alt", "scope")} for c in ch], "path": f}))
        srcs = [{"id": f"ex:{n}", "src": s, "mode": "exec", "recode": True} for n, s in REPO_EXAMPLES.items()]
        srcs += [{"id": f"sn:{i}", "src": s, "mode": m, "optimize": o, "recode": o == 0} for i, (m, s) in enumerate(SNIPPETS) for o in (0, 2)]
        # the same programs with every def / class / lambda line moved 40 lines down: body lines below co_firstlineno
        srcs += [{"id": f"sh:{i}", "src": s, "mode": m, "shift_defs": 40} for i, (m, s) in enumerate(SNIPPETS) if m == "exec"]
        if extra_sources and not extra_on_every_worker:
            srcs += extra_sources.get(v, [])
        if extra_sources and extra_on_every_worker:
            # pinned jobs: every worker of the version (each has its own PYTHONHASHSEED) gets every extra source
            for wi in range(len(pool.workers[v])):
                for ch in chunks(extra_sources.get(v, []), 300):
                    k += 1
                    f = str(wd / f"xsrc-{v}-{k}.ndjson")
                    files.append(f)
                    jobs[v].append(("decode.sources_to_file", {"sources": [dict(s_, id=s_["id"] + f"@h{wi}") for s_ in ch], "path": f}, wi))
        if tier == "thorough":
            if not hasattr(rep, "_hypo"):
                rep._hypo = corpus.hypothesmith_sources(1500, wd)
                rep.cov["hypothesmith_programs"] = len(rep._hypo)
            srcs += [dict(s_, mode="exec") for s_ in rep._hypo]
        for ch in chunks(srcs, 300):
            k += 1
            f = str(wd / f"src-{v}-{k}.ndjson")
            files.append(f)
            jobs[v].append(("decode.sources_to_file", {"sources": ch, "path": f}))
        k += 1
        f = str(wd / f"bigjump-{v}-{k}.ndjson")
        files.append(f)
        jobs[v].append(("decode.bigjump_to_file", {"path": f}))
        if with_corpus:
            nfiles = 60 if tier == "quick" else 500
            fs = corpus.sample_files(v, nfiles, "decode") + corpus.repo_examples()
            for opt in ([0] if tier == "quick" else [0, 1, 2]):
                for ch in chunks(fs, 12):
                    k += 1
                    f = str(wd / f"corpus-{v}-{k}.ndjson")
                    files.append(f)
                    jobs[v].append(("decode.corpus_to_file", {"files": ch, "path": f, "optimize": opt}))

    def runjobs(v):
        ws = pool.workers[v]

        def go(wi):
            out = []
            free = [j for j in jobs[v] if len(j) == 2]
            mine = [j for j in jobs[v] if len(j) == 3 and j[2] == wi] + free[wi::len(ws)]
            for j in mine:
                out.append(ws[wi].req(j[0], **j[1]))
            return out

        with ThreadPoolExecutor(max_workers=len(ws)) as ex2:
            return [x for xs in ex2.map(go, range(len(ws))) for x in xs]

    with ThreadPoolExecutor(max_workers=len(pool.versions)) as ex:
        outs = list(ex.map(runjobs, pool.versions))
    st = {"events": 0, "skipped": 0, "big": 0, "wide": 0, "uncompilable": 0}
    for o in outs:
        for x in o:
            if isinstance(x, dict):
                for kk in ("events", "skipped", "big", "wide"):
                    st[kk] += x.get(kk, 0)
                st["uncompilable"] += len(x.get("uncompilable", []))
                rep._uncompilable = getattr(rep, "_uncompilable", []) + [u[0] for u in x.get("uncompilable", [])]
            else:
                st["events"] += x
    rep.cov["recorded"] = st
    return files


def validate(rep: Report, files, module="Trace_Decode", expect_delta=1):
    fails = []

    def one(f):
        n = sum(1 for _ in open(f))
        if n == 0:
            return None, 0, f
        return run_tlc(module, module + ".cfg", workers=1, env={"TRACE_FILE": f}, heap="3g", timeout=3600), n, f

    with ThreadPoolExecutor(max_workers=NCPU) as ex:
        for r, n, f in ex.map(one, files):
            if r is None:
                continue
            rep.cov["traces_validated_against_impl"] += n
            rep.cov["states"] += r.distinct
            rep.cov["transitions"] += r.generated
            if not r.ok or r.distinct != n + expect_delta:
                rep.machinery_error(f"{module} {f}: rc={r.rc} distinct={r.distinct} expected={n + expect_delta} {r.errors[:2]} "
                                    f"{r.violated[:2]} :: {r.out[-600:]}")
            for s in tlc_prints(r.out):
                fails.append(json.loads(tla_unescape(s)))
    # negative controls corrupt an event that is currently accepted
    if not hasattr(rep, "failing_ids"):
        rep.failing_ids = set()
    rep.failing_ids |= {f["id"] for f in fails}
    return fails


def classify(rep: Report, fails, prefixes: tuple[str, ...], pid: str, keyfn):
    """ENV.* -> machinery; own prefixes -> violations; M.* and the other properties' -> evidence only"""
    other = {}
    n_m = 0
    m_examples = []
    for f in fails:
        bad = f["bad"]
        env = [b for b in bad if b.startswith("ENV.")]
        if env:
            rep.machinery_error(f"environment model disagrees with CPython on {f['id']}: {env}")
            continue
        mine = [b for b in bad if b.startswith(prefixes)]
        if any(b.startswith("M.") for b in bad):
            n_m += 1
            if len(m_examples) < 5:
                m_examples.append({"id": f["id"], "clauses": [b for b in bad if b.startswith("M.")]})
        for b in bad:
            if not b.startswith(prefixes) and not b.startswith("M."):
                other[b] = other.get(b, 0) + 1
        if mine:
            key = keyfn(f["id"], mine)
            rep.violation(key, f"{f['id']}: failing clauses {mine}", {"event": f["id"], "clauses": bad})
    rep.cov["model_agreement"] = {"events_where_library_output_differs_from_the_reference_model": n_m,
                                  "examples": m_examples}
    rep.cov["other_properties_clauses_failing_on_same_events"] = other


def ver_of(evid: str) -> str:
    parts = evid.split(":")
    if parts[0] in ("g", "c"):
        return parts[1]
    for p in parts:
        if p in SUPPORTED:
            return p
    return "?"


def negative_control(rep: Report, files, module: str, corrupt, expect: tuple[str, ...], keep_first_line=False, expect_delta=1):
    """Binding is demonstrated, not assumed: take one recorded event, corrupt one field, and require
    the trace specification to reject it with a clause from `expect`.  A corrupted event that is
    accepted is a machinery error."""
    import copy
    import os

    for f in files:
        if not os.path.exists(f):
            continue
        lines = [ln for ln in open(f).read().split("\n") if ln]
        head = lines[:1] if keep_first_line else []
        for ln in lines[1 if keep_first_line else 0:][:400]:
            e = json.loads(ln)
            if e.get("id") in getattr(rep, "failing_ids", ()):
                continue
            bad = corrupt(copy.deepcopy(e))
            if bad is None:
                continue
            tmp = f + ".negctl"
            with open(tmp, "w") as fh:
                for h in head:
                    fh.write(h + "\n")
                fh.write(json.dumps(bad, separators=(",", ":")) + "\n")
            r = run_tlc(module, module + ".cfg", workers=1, env={"TRACE_FILE": tmp}, heap="1g", timeout=600)
            got = [b for s_ in tlc_prints(r.out) for b in json.loads(tla_unescape(s_))["bad"]]
            ok = any(g.startswith(expect) for g in got)
            rep.cov.setdefault("negative_controls", []).append(
                {"trace_spec": module, "event": e.get("id"), "rejected_with": sorted(set(got))[:6], "ok": ok})
            if not ok:
                rep.machinery_error(f"negative control: {module} accepted a corrupted event {e.get('id')} (clauses {got[:5]}; "
                                    f"{r.errors[:2]})")
            os.remove(tmp)
            return
    rep.machinery_error(f"negative control for {module}: no event could be corrupted")
