"""C05 - normalization preserves the meaning of the code.

* design level: MC_Decode.tla, invariant NormalizeModel (Sem(Encode(Normalize(Decode c))) = Sem(c));
* every corpus code object: c2 = from_code(c).normalize().to_code() on the real library; CPython's
  reading of c and of c2 (dis, PyCode_Addr2Line, header) is recorded and TLC evaluates
  Normalize!Sem on both (Trace_Encode.tla, clauses P05.*);
* behaviours of MC_Programs.tla (small terminating programs) and fixed programs are executed twice
  (original / normalised code) under sys.settrace with captured output; TLC requires the two
  recorded behaviours to be the same (Trace_Exec.tla)."""
from __future__ import annotations

import json
from concurrent.futures import ThreadPoolExecutor

import corpus
import decode_family as df
from common import NCPU, SUPPORTED, Pool, Report, chunks, run_tlc, tla_unescape, tlc_prints, workdir

PID = "C05"
PRELUDE = '''class Ctx:
    def __enter__(self):
        return "ctx"
    def __exit__(self, *a):
        return False

'''
TEMPLATES = [
    ["acc.append(a + 1)"],
    ["if a > b:", "    acc.append('gt')", "else:", "    acc.append('le')"],
    ["for i in range(3):", "    acc.append(i * a)"],
    ["n = 0", "while n < 2:", "    n += 1", "    acc.append(n)"],
    ["try:", "    acc.append(1 // b)", "except ZeroDivisionError as e:", "    acc.append(str(e))", "finally:", "    acc.append('fin')"],
    ["def inner(x, *y, k=2, **z):", "    'inner doc'", "    return x + k + len(y) + len(z)", "acc.append(inner(a, 5, k=b, q=1))"],
    ["def outer():", "    c = a * 2", "    def get():", "        return c + b", "    return get", "acc.append(outer()())"],
    ["acc.append([x * 2 for x in range(a + 2) if x % 2])", "acc.append({x: str(x) for x in range(b)})"],
    ["with Ctx() as c:", "    acc.append(c)"],
    ["print('out', a, b)"],
    ["acc.append((lambda q, r=3: q * r)(a))"],
    ["def gen():", "    yield a", "    yield b", "acc.extend(gen())"],
    ["if a == 2:", "    return acc", "    acc.append('dead')"],
    ["if b == 0 and a == 3:", "    raise ValueError(a)"],
    ["acc.append(max(a,", "", "               b))"],
    ["class K:", "    'class doc'", "    v = 1.5", "    def m(self):", "        return self.v, -0.0, 1e999 - 1e999 != 0", "acc.append(K().m()[0])"],
    ["acc.append(('t', 1, 1.0, True, None, ..., b'x', 2j, frozenset([1])) [a % 3])"],
    ["x = a", "del x", "acc.append(b'bytes' if a else 'str')"],
]
FIXED = {
    "example_modify": "def f(a, b):\n    x = 1\n    return x + a\n",
    "recursion": "def f(a, b):\n    return 1 if a <= 0 else a * f(a - 1, b)\n",
    "async": "import asyncio\nasync def co(a):\n    return a + 1\ndef f(a, b):\n    loop = asyncio.new_event_loop()\n    try:\n        return loop.run_until_complete(co(a))\n    finally:\n        loop.close()\n",
    "nonlocal": "def f(a, b):\n    t = 0\n    def inc():\n        nonlocal t\n        t += a\n    inc(); inc()\n    return t\n",
    "starargs": "def g(p, q=2, *r, s, t=5, **u):\n    return p, q, r, s, t, sorted(u)\ndef f(a, b):\n    return g(a, b, 9, s=1, z=2)\n",
    "tryelse": "def f(a, b):\n    try:\n        x = a // b\n    except ZeroDivisionError:\n        return 'zde'\n    else:\n        return x\n    finally:\n        print('cleanup')\n",
    "longjump": "def f(a, b):\n    x = a\n" + "".join("    x = x + 1\n" for _ in range(150)) + "    while x > a + 140:\n        x -= 7\n    return x\n",
}


def render(prog):
    body = ["    acc = []"]
    for t in prog:
        body += ["    " + line if line else "" for line in TEMPLATES[t - 1]]
    body.append("    return acc")
    return PRELUDE + "def f(a, b):\n" + "\n".join(body) + "\n"


def run(tier: str, rep: Report):
    wd = workdir("c05")
    rep.assumptions += [
        "interpreters: pyenv 3.7.16, 3.8.18, 3.9.18, 3.10.13",
        "meaning = Normalize!Sem evaluated by TLC on CPython's own reading (dis, PyCode_Addr2Line, header) of both code "
        "objects; nested code constants are identified by a recursive meaning fingerprint computed by the harness and each "
        "nested code object is also an event of its own",
        "execution equivalence is sampled: programs of MC_Programs (sequences of statement templates) + fixed programs, "
        "each called on 3 argument tuples; no claim for programs with I/O, threads or nondeterminism",
    ]
    maxlen = 2 if tier == "quick" else 3
    cfg = wd / "MC_Programs.cfg"
    cfg.write_text(f"SPECIFICATION Spec\nCONSTANTS\n  NTemplates = {len(TEMPLATES)}\n  MaxLen = {maxlen}\n  Emit = TRUE\nINVARIANT EmitProgram\n")
    r = run_tlc("MC_Programs", str(cfg), workers=4, timeout=1200)
    rep.add_tlc(r, f"MC_Programs[templates={len(TEMPLATES)},len={maxlen}]")
    progs = [json.loads(tla_unescape(s)) for s in tlc_prints(r.out)]
    if not progs:
        rep.machinery_error(f"MC_Programs emitted nothing: {r.out[-300:]}")
    # design level
    mcs = {}

    def mc(job):
        v, sc = job
        cfgd = wd / f"MC_Decode_norm_{v}_{sc}.cfg"
        cfgd.write_text(f"""SPECIFICATION Spec
CONSTANTS
  Ver = "{v}"
  MaxUnits = {3 if tier == "quick" else 4}
  MaxPrefix = 1
  Classes = {{"EXT", "JABS", "JREL", "NAME", "LOCAL", "FREE", "CONST", "NOARG", "RAW"}}
  ByteVals = {{0, 1, 2, 4}}
  Scope = "{sc}"
  Emit = FALSE
INVARIANT NormalizeModel
""")
        return v + "/" + sc, run_tlc("MC_Decode", str(cfgd), workers=max(2, NCPU // 4), timeout=3000, heap="6g")

    mjobs = [(v, "module") for v in SUPPORTED] + [(v, sc) for v in (SUPPORTED if tier == "thorough" else ["38", "310"])
                                                  for sc in ("fn", "fndoc")]
    with ThreadPoolExecutor(max_workers=4) as ex:
        for v, rr in ex.map(mc, mjobs):
            rep.add_tlc(rr, f"MC_Decode+NormalizeModel[{v}]")
            if rr.violated:
                rep.machinery_error(f"NormalizeModel violated on the reference model [{v}]: {rr.violated[:2]}")
    programs = [{"id": f"p:{'-'.join(map(str, p))}", "src": render(p)} for p in progs]
    programs += [{"id": f"fixed:{k}", "src": v} for k, v in FIXED.items()]
    programs += [{"id": f"ex:{n}", "src": s} for n, s in df.REPO_EXAMPLES.items() if n not in ("long jump", "bpo-46724", "variable", "negative line jump", "long negative jump")]
    pool = Pool(SUPPORTED, per_version=4)
    files = []
    exec_files = []
    try:
        jobs = {v: [] for v in SUPPORTED}
        k = 0
        for v in SUPPORTED:
            for ch in chunks(programs, 60):
                k += 1
                f = str(wd / f"exec-{v}-{k}.ndjson")
                exec_files.append(f)
                jobs[v].append(("execs.programs_to_file", {"programs": ch, "path": f}))
            nfiles = 40 if tier == "quick" else 500
            fs = corpus.sample_files(v, nfiles, "c05") + corpus.repo_examples()
            for opt in ([0] if tier == "quick" else [0, 2]):
                for ch in chunks(fs, 8):
                    k += 1
                    f = str(wd / f"corpus-{v}-{k}.ndjson")
                    files.append(f)
                    jobs[v].append(("encode.corpus_to_file", {"files": ch, "path": f, "optimize": opt}))
            srcs = [{"id": f"sn:{i}", "src": s, "mode": m} for i, (m, s) in enumerate(df.SNIPPETS)]
            srcs += [{"id": f"sh:{i}", "src": s, "mode": m, "shift_defs": 40} for i, (m, s) in enumerate(df.SNIPPETS) if m == "exec"]
            srcs += [{"id": f"pr:{i}", "src": p["src"]} for i, p in enumerate(programs[:: max(1, len(programs) // 40)])]
            k += 1
            f = str(wd / f"src-{v}-{k}.ndjson")
            files.append(f)
            jobs[v].append(("encode.sources_to_file", {"sources": srcs, "path": f}))

        def runjobs(v):
            ws = pool.workers[v]

            def go(wi):
                return [ws[wi].req(jobs[v][j][0], **jobs[v][j][1]) for j in range(wi, len(jobs[v]), len(ws))]

            with ThreadPoolExecutor(max_workers=len(ws)) as ex2:
                return [x for xs in ex2.map(go, range(len(ws))) for x in xs]

        with ThreadPoolExecutor(max_workers=4) as ex:
            outs = list(ex.map(runjobs, SUPPORTED))
    finally:
        pool.close()
    nunc = sum(len(x.get("uncompilable", [])) for o in outs for x in o if isinstance(x, dict))
    nev = sum(x.get("events", 0) for o in outs for x in o if isinstance(x, dict))
    rep.cov["recorded"] = {"events": nev, "uncompilable": nunc}
    if nunc > 4 * 4:
        rep.machinery_error(f"{nunc} rendered programs did not compile")
    rep.cov["evaluations"] = nev
    rep.cov["programs_executed_twice_per_interpreter"] = len(programs)
    rep.cov["distinct_nontrivial"] = len(programs)
    rep.cov["rule"] = ("cases = to_code() events on normalised corpus data + executed programs; non-trivial = executed "
                       "programs (each a distinct template sequence or fixed program, called on 3 argument tuples)")
    rep.cov["explanation"] = (f"MC_Programs exhaustive over template sequences of length {maxlen} over {len(TEMPLATES)} "
                              "templates; MC_Decode NormalizeModel exhaustive per version; corpus sample per interpreter")
    rep.sample({"program": programs[len(programs) // 3]["src"]})
    fails = df.validate(rep, files, "Trace_Encode") + df.validate(rep, exec_files, "Trace_Exec")

    def keyfn(evid, clauses):
        kind = evid.split(":")[0]
        if [c.split(".", 1)[1] for c in clauses] == ["opline_split"]:
            # the only difference: an instruction whose ORIGINAL line changes between its EXTENDED_ARG prefix and its
            # opcode unit reports another line at the opcode unit (same root cause as the known C01 finding)
            return f"{PID}/opline_split/line-entry-inside-multi-unit-instruction"
        return f"{PID}/{'+'.join(sorted(set(c.split('.', 1)[1] for c in clauses)))}/{kind}/ver{df.ver_of(evid) if kind in ('c', 'g') else evid.split(':')[-1].split('.')[0] if kind in ('p', 'fixed') else df.ver_of(evid)}"

    def corrupt(e):
        if not e.get("has_c0") or e["out"]["exc"] or not e["c0"]["cpy_lines"]:
            return None
        e["c0"]["cpy_lines"][0] += 1       # the original code "had" another line
        return e

    df.negative_control(rep, files, "Trace_Encode", corrupt, ("P05.sem",))

    def corrupt_x(e):
        if e.get("kind") != "exec" or not e["b"]["events"]:
            return None
        e["b"]["events"] = e["b"]["events"][:-1]
        return e

    df.negative_control(rep, exec_files, "Trace_Exec", corrupt_x, ("P05.exec.events",))
    df.classify(rep, fails, ("P05.",), PID, keyfn)
