"""C01 - code -> data -> code round trip is lossless in every field.

1. TLC, MC_Decode.tla with RoundTripModel: the reference encoder applied to the reference decoder's
   output reproduces stream, tables and header for every word-code stream of the bounded model in
   the domain the compilers emit (design level: the override fields carry enough).
2. Those streams are rebuilt as real code objects; every code object of the corpus (each
   interpreter's stdlib, the repository's examples, snippets in exec/eval/single mode, optimize
   0/1/2) is decoded and re-encoded by the real library; a strict comparator looks at every
   attribute (co_lnotab/co_linetable, co_filename, co_stacksize included, constants by type and
   bits, recursively).  Events are validated by TLC against Trace_Encode.tla (P01.*), which also
   re-runs Encode.tla on the decoded data (M.*)."""
from __future__ import annotations

import json
import random
from concurrent.futures import ThreadPoolExecutor

import corpus
import decode_family as df
from common import NCPU, SUPPORTED, Pool, Report, chunks, run_tlc, seed, tla_unescape, tlc_prints, workdir

PID = "C01"


def model_cfg(ver, tier, wd, scope="module"):
    mu = 3 if tier == "quick" else 4
    mp = 1 if tier == "quick" else 2
    classes, by = '"EXT", "JABS", "JREL", "NAME", "LOCAL", "FREE", "CONST", "NOARG", "RAW"', "{0, 1, 2, 4}"
    if scope in df.SMALL_SCOPES:
        classes, by, mu, mp = df.SMALL_SCOPES[scope] + (4, 2 if scope == "wide" else 1)
    fn = wd / f"MC_Decode_rt_{ver}_{scope}.cfg"
    fn.write_text(f"""SPECIFICATION Spec
CONSTANTS
  Ver = "{ver}"
  MaxUnits = {mu}
  MaxPrefix = {mp}
  Classes = {{{classes}}}
  ByteVals = {by}
  Scope = "{scope}"
  Emit = {"TRUE" if scope in ("module",) + tuple(df.SMALL_SCOPES) else "FALSE"}
INVARIANT DecodeModel
INVARIANT RoundTripModel
""")
    return str(fn)


def minimal_widths(units):
    """the compilers' domain: redundant EXTENDED_ARG prefixes only in front of jumps"""
    n = 0
    arg = 0
    for cls, byte in units:
        if cls == "EXT":
            n += 1
            arg = (arg | byte) << 8
        else:
            arg |= byte
            need = 1 if arg <= 0xFF else 2 if arg <= 0xFFFF else 3
            if cls not in ("JABS", "JREL") and n + 1 != need:
                return False
            n = 0
            arg = 0
    return True


def run(tier: str, rep: Report):
    wd = workdir("c01")
    rep.assumptions += [
        "interpreters: pyenv 3.7.16, 3.8.18, 3.9.18, 3.10.13; code_data from the working tree",
        "strict comparator: every co_* attribute, constants by type and bit pattern, nested code objects recursively",
        "code objects whose folded operand needs >= 32 bits (bpo-46724) are kept out of TLC but still compared",
        "synthetic streams are restricted to the compilers' domain: redundant EXTENDED_ARG prefixes only before jumps "
        "(MC_Decode shows `EXTENDED_ARG 0; LOAD_FAST 0` cannot round-trip: the data model keeps jump widths only)",
    ]

    def mc(job):
        v, sc = job
        return v, sc, run_tlc("MC_Decode", model_cfg(v, tier, wd, sc), workers=max(2, NCPU // 4), timeout=3000,
                              extra=["-continue"], heap="6g")

    gen = {v: [] for v in SUPPORTED}
    with ThreadPoolExecutor(max_workers=4) as ex:
        for v, sc, r in ex.map(mc, [(v, sc) for sc in ("module",) + tuple(df.SMALL_SCOPES) for v in SUPPORTED]):
            r.errors = [e for e in r.errors if "behavior up to this point" not in e]
            rep.add_tlc(r, f"MC_Decode+RoundTripModel[{v},{tier},{sc}]")
            rep.cov.setdefault("model_invariant_violations", {})[v + ":" + sc] = len(r.violated)
            cs = []
            tag = "" if sc == "module" else sc[0]
            for n, s in enumerate(tlc_prints(r.out)):
                ver, units, instrs, starts, bad = json.loads(tla_unescape(s))
                us = [[u[0], u[2]] for u in units]
                if minimal_widths(us):
                    cs.append({"id": f"g:{v}:{tag}{n}", "units": us, "alt": n % 2 == 1, "scope": sc})
            gen[v] += cs
            if not cs:
                rep.machinery_error(f"MC_Decode[{v},{sc}] emitted nothing usable: {r.out[-400:]}")
    # the same invariants for function scopes (docstring slot, the encoder's "prepend None" rule); design level only
    def mcf(job):
        v, sc = job
        return v, sc, run_tlc("MC_Decode", model_cfg(v, tier, wd, sc), workers=max(2, NCPU // 4), timeout=3000, heap="6g")

    fjobs = [(v, sc) for v in (SUPPORTED if tier == "thorough" else ["38", "310"]) for sc in ("fn", "fndoc")]
    with ThreadPoolExecutor(max_workers=4) as ex:
        for v, sc, r in ex.map(mcf, fjobs):
            rep.add_tlc(r, f"MC_Decode+RoundTripModel[{v},{tier},scope={sc}]")
            if r.violated:
                rep.machinery_error(f"RoundTripModel/DecodeModel violated on the reference model [{v},{sc}]: {r.violated[:2]}")
    rnd = random.Random(seed() + 4)
    limit = 8000 if tier == "quick" else 100000
    pool = Pool(SUPPORTED, per_version=4)
    files = []
    try:
        jobs = {v: [] for v in SUPPORTED}
        k = 0
        for v in SUPPORTED:
            small = [c for c in gen[v] if c["scope"] != "module"]
            big = [c for c in gen[v] if c["scope"] == "module"]
            gs = small + (big if len(big) <= limit else rnd.sample(big, limit))
            for ch in chunks(gs, 2000):
                k += 1
                f = str(wd / f"gen-{v}-{k}.ndjson")
                files.append(f)
                jobs[v].append(("encode.units_to_file", {"cases": ch, "path": f}))
            nfiles = 100 if tier == "quick" else None
            fs = corpus.sample_files(v, nfiles, "c01") + corpus.repo_examples()
            for opt in ([0] if tier == "quick" else [0, 1, 2]):
                for ch in chunks(fs, 10):
                    k += 1
                    f = str(wd / f"corpus-{v}-{k}.ndjson")
                    files.append(f)
                    jobs[v].append(("encode.corpus_to_file", {"files": ch, "path": f, "optimize": opt, "normalized": False}))
            srcs = [{"id": f"ex:{n}", "src": s} for n, s in df.REPO_EXAMPLES.items()]
            srcs += [{"id": "future:barry", "src": "from __future__ import barry_as_FLUFL\nx = 1\n"},
                     {"id": "future:all", "src": "from __future__ import division, print_function, unicode_literals, absolute_import, "
                                                 "with_statement, generator_stop, nested_scopes, generators, annotations\nx = 1\n"}]
            srcs += [{"id": f"sn:{i}:o{o}", "src": s, "mode": m, "optimize": o} for i, (m, s) in enumerate(df.SNIPPETS) for o in (0, 1, 2)]
            srcs += [{"id": f"sh:{i}", "src": s, "mode": m, "shift_defs": 40} for i, (m, s) in enumerate(df.SNIPPETS) if m == "exec"]
            if tier == "thorough":
                if not hasattr(rep, "_hypo"):
                    rep._hypo = corpus.hypothesmith_sources(3000, wd)
                    rep.cov["hypothesmith_programs"] = len(rep._hypo)
                srcs += rep._hypo
            for ch in chunks(srcs, 400):
                k += 1
                f = str(wd / f"src-{v}-{k}.ndjson")
                files.append(f)
                jobs[v].append(("encode.sources_to_file", {"sources": ch, "path": f, "normalized": False}))

        def runjobs(v):
            ws = pool.workers[v]

            def go(wi):
                return [ws[wi].req(jobs[v][j][0], **jobs[v][j][1]) for j in range(wi, len(jobs[v]), len(ws))]

            with ThreadPoolExecutor(max_workers=len(ws)) as ex2:
                return [x for xs in ex2.map(go, range(len(ws))) for x in xs]

        with ThreadPoolExecutor(max_workers=4) as ex:
            outs = list(ex.map(runjobs, SUPPORTED))
    finally:
        pool.close()
    st = {"events": 0, "skipped": 0, "big": 0, "wide": 0, "from_code_exc": 0}
    for o in outs:
        for x in o:
            if isinstance(x, dict):
                for kk in st:
                    st[kk] += x.get(kk, 0)
            else:
                st["events"] += x
    rep.cov["recorded"] = st
    rep.cov["evaluations"] = st["events"]
    rep.cov["distinct_nontrivial"] = sum(1 for v in gen for c in gen[v] if any(u[0] in ("JABS", "JREL", "EXT") for u in c["units"]))
    rep.cov["rule"] = ("cases = one per code object decoded and re-encoded (corpus) + one per replayed model stream; "
                       "non-trivial (counted on model streams) = contains a jump or an EXTENDED_ARG prefix")
    rep.cov["exhaustive"] = False
    rep.cov["explanation"] = ("model: MC_Decode + RoundTripModel exhaustive per version over streams of <= "
                              f"{3 if tier == 'quick' else 4} units; implementation: "
                              + ("seeded sample of 100 stdlib files per interpreter, optimize 0" if tier == "quick"
                                 else "every stdlib file of every interpreter at optimize 0, 1, 2")
                              + ", the repository's minimized examples and EXAMPLES, snippets in exec/eval/single mode")
    fails = df.validate(rep, files, "Trace_Encode")
    # the strict comparator's per-event details (for keys)
    details = {}
    for f in fails:
        if any(b.startswith("P01.") for b in f["bad"]):
            details[f["id"]] = None
    if details:
        for fn in files:
            for line in open(fn):
                if any(i in line for i in ('"rt":{"ran":true,"same":false', '"fromcode_fail"', '"exc_type":"')):
                    e = json.loads(line)
                    if e["id"] in details:
                        details[e["id"]] = e.get("rt") or {"exc": e.get("exc")}
                        if e.get("kind") == "fromcode_fail":
                            barry = 18 if e["ver"] == "37" else 22
                            only_barry = e["exc_type"] == "ValueError" and barry in e.get("flags", []) \
                                and "barry_as_FLUFL" in e.get("exc", "") and e["exc"].count("'") == 2
                            details[e["id"]] = {"from_code": "future-flag-barry_as_FLUFL" if only_barry else e["exc_type"]}
                        elif e["out"]["exc"]:
                            details[e["id"]] = {"to_code": e["out"]["exc_type"]}

    def keyfn(evid, clauses):
        d = details.get(evid) or {}
        if "from_code" in d:
            feat = "from_code-" + d["from_code"]
        elif "to_code" in d:
            feat = "to_code-" + d["to_code"]
        else:
            feat = "+".join(d.get("fields", ["?"]))
            if d.get("fields") == ["linetable"] and d.get("inner_entry"):
                feat = "linetable/line-entry-inside-multi-unit-instruction"
        return f"{PID}/{'+'.join(sorted(c.split('.')[1] for c in clauses))}/{feat}"

    def corrupt(e):
        if e.get("kind") != "encode" or e.get("src") != "decoded" or not e["rt"]["ran"] or not e["rt"]["same"]:
            return None
        e["rt"]["same"] = False
        return e

    df.negative_control(rep, files, "Trace_Encode", corrupt, ("P01.identical",))
    df.classify(rep, fails, ("P01.",), PID, keyfn)
    for v in ("38",):
        for c in gen[v][:: max(1, len(gen[v]) // 2)][:2]:
            rep.sample({"ver": v, "model_stream": c["units"]})
