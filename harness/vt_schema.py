"""Runs under python3-vt (jsonschema available): validates the raw documents of a C07 event file
against the published schema (first line) with the independent `jsonschema` package, records the
verdict in each event (js_ok) and drops the raw documents."""
import json
import sys

import jsonschema


def main(path):
    lines = open(path).read().split("\n")
    head = json.loads(lines[0])
    validator = jsonschema.Draft7Validator(head["doc"])
    head.pop("doc")
    out = [json.dumps(head, separators=(",", ":"))]
    for line in lines[1:]:
        if not line:
            continue
        e = json.loads(line)
        doc = e.pop("doc", None)
        e["js_ran"] = doc is not None
        e["js_ok"] = doc is not None and not any(True for _ in validator.iter_errors(doc))
        out.append(json.dumps(e, separators=(",", ":")))
    open(path, "w").write("\n".join(out) + "\n")


if __name__ == "__main__":
    for p in sys.argv[1:]:
        main(p)
