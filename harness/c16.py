"""C16 - the command line prints what the API returns for the same program.

TLC enumerates all 2^4 x 2^5 option sets with their expected outcome (Cli.tla / MC_Cli.tla); each is
run for real as `python -c "from code_data._cli import main; main()" ...` on 3.7-3.10 (no `rich`
there: the plain-print fallback runs); stdout is split into sections and compared with what the
API returns in-process on the same interpreter; Trace_Cli.tla validates the recordings."""
from __future__ import annotations

import json
import os
import re
import subprocess
import sys
from concurrent.futures import ThreadPoolExecutor
from pathlib import Path

import decode_family as df
from common import HARNESS, INTERP, NCPU, REPO, SUPPORTED, Pool, Report, run_tlc, tla_unescape, tlc_prints, workdir

PID = "C16"
PROGRAMS = [
    {"id": "basic", "text": "x = 1\ny = x + 2\n"},
    {"id": "floats", "text": "a = 1e999 - 1e999\nb = 1e999\nc = -0.0\nd = (1.5, -1e999, 2j)\n"},
    {"id": "bytes_ellipsis", "text": "a = b'\\x00\\xff'\nb = ...\nc = 'caf\\xe9'\n"},
    {"id": "nested", "text": "def f(a, *b, k=1, **c):\n    'doc'\n    return [i for i in b if i]\nclass K:\n    pass\n"},
    {"id": "bigint", "text": "a = 2 ** 70\nb = 18446744073709551616\nc = frozenset\nd = x in {1, 2, 3}\n"},
    {"id": "loop", "text": "for i in range(3):\n    if i:\n        continue\n    print(i)\n"},
    # whitespace that a "helpful" clean-up of the source would destroy: blank-but-not-empty lines and
    # trailing blanks inside a string literal, a tab, a form feed, a trailing comment
    {"id": "whitespace", "text": 's = """first\n    \n\tthird  \n"""\nif s:\n    t = (1,\n\n         2)   # c\n\x0c\nu = 3\n'},
]
# a literal backslash-n inside the program text (escape in a string, raw string, comment): only the -c
# option may turn it into a newline
_BSN = 'x = "a\\nb"\ny = r"c\\nd"  # \\n\nz = 1\n'
PROGRAMS.append({"id": "backslash_n", "text": _BSN,
                 "values": {"c": "z = 1", "e": " + linesep + ".join(repr(ln) for ln in _BSN.split("\n")), "m": "verifmod_backslash_n"}})
# -e expressions that use `linesep` from a nested scope (generator expression, lambda, comprehension)
_E2 = "x = 1\ny = 2\n"
PROGRAMS.append({"id": "e_genexp", "text": _E2, "values": {"c": "x = 1\\ny = 2\\n", "m": "verifmod_e_genexp",
                 "e": "''.join(ln + linesep for ln in ('x = 1', 'y = 2'))"}})
PROGRAMS.append({"id": "e_lambda", "text": _E2, "values": {"c": "x = 1\\ny = 2\\n", "m": "verifmod_e_lambda",
                 "e": "(lambda a, b: a + linesep + b + linesep)('x = 1', 'y = 2')"}})
PROGRAMS.append({"id": "e_listcomp", "text": _E2, "values": {"c": "x = 1\\ny = 2\\n", "m": "verifmod_e_listcomp",
                 "e": "''.join([ln + linesep for ln in ('x = 1', 'y = 2')])"}})
# -m on modules that have a code object but NO SOURCE TEXT: a sourceless .pyc (written per interpreter into the
# module directory) and a frozen module of the interpreter
_NS = "x = 1\ny = [x, 2.5]\n"
PROGRAMS.append({"id": "m_nosrc", "text": _NS, "values": {"c": "x = 1\\ny = [x, 2.5]\\n", "e": "'x = 1' + linesep + 'y = [x, 2.5]' + linesep",
                                                         "m": "verifnosrc_{v}"}})
PROGRAMS.append({"id": "m_frozen", "text": _NS, "values": {"c": "x = 1\\ny = [x, 2.5]\\n", "e": "'x = 1' + linesep + 'y = [x, 2.5]' + linesep",
                                                          "m": "__hello__"}})
# an asynchronous generator expression directly at module level (legal; compile flags must not change what it means)
PROGRAMS.append({"id": "async_genexp", "text": "y = []\nz = (x async for x in y)\n"})
# the FILE source given as a stream (/dev/stdin fed by a pipe): it can be read only once
PROGRAMS.append({"id": "file_stdin", "text": _NS, "stdin": True,
                 "values": {"c": "x = 1\\ny = [x, 2.5]\\n", "e": "'x = 1' + linesep + 'y = [x, 2.5]' + linesep", "m": "verifmod_file_stdin"}})
# two sources given the IDENTICAL string are still two sources
PROGRAMS.append({"id": "same_c_e", "text": "pass\n", "values": {"c": "'pass'", "e": "'pass'", "m": "verifmod_same_c_e"}})
PROGRAMS.append({"id": "same_c_m", "text": "x = 1\n", "values": {"c": "verifmod_same_c_m", "e": "'x = 1'", "m": "verifmod_same_c_m"}})
LINE = re.compile(r"^\s*(?:\d+)?\s*(?:>>)?\s*\d+\s+([A-Z_][A-Z_0-9]*)\s*(?:\d+)?\s*(\(.*\))?\s*$")


def listing(text: str):
    out = []
    for ln in text.splitlines():
        m = LINE.match(ln)
        if m:
            arg = m.group(2) or ""
            arg = re.sub(r"0x[0-9a-f]+", "0x?", arg)
            arg = re.sub(r"^\(to \d+\)$", "(to ?)", arg)
            out.append((m.group(1), arg))
    return out


def split_output(stdout: str):
    lines = stdout.split("\n")
    di = next((i for i, ln in enumerate(lines) if ln.startswith("CodeData(")), None)
    r = {"printed_data": di is not None, "data": "", "has_json": False, "json": None, "before": "", "after": ""}
    if di is None:
        return r
    r["data"] = lines[di]
    r["before"] = "\n".join(lines[:di])
    rest = lines[di + 1:]
    if rest and rest[0] == "{":
        try:
            end = rest.index("}")
            r["json"] = json.loads("\n".join(rest[: end + 1]))
            r["has_json"] = True
            rest = rest[end + 1:]
        except Exception:
            r["has_json"] = True
    r["after"] = "\n".join(rest)
    return r


def run(tier: str, rep: Report):
    wd = workdir("c16")
    rep.assumptions += [
        "interpreters: pyenv 3.7.16, 3.8.18, 3.9.18, 3.10.13 without `rich` (plain-print fallback of the CLI)",
        "a source counts as supplied when its value is non-empty (the CLI filters with truthiness)",
    ]
    cfg = wd / "MC_Cli.cfg"
    cfg.write_text("SPECIFICATION Spec\nCONSTANTS\n  Emit = TRUE\nINVARIANT CliModel\n")
    r = run_tlc("MC_Cli", str(cfg), workers=4, timeout=600)
    rep.add_tlc(r, "MC_Cli[all 512 option sets]")
    opts = [json.loads(tla_unescape(s)) for s in tlc_prints(r.out)]
    if len(opts) != 512:
        rep.machinery_error(f"MC_Cli emitted {len(opts)} option sets, expected 512: {r.out[-300:]}")
    moddir = wd / "mods"
    moddir.mkdir()
    for p in PROGRAMS:
        (wd / f"prog_{p['id']}.py").write_text(p["text"])
        (moddir / f"verifmod_{p['id']}.py").write_text(p["text"])
    versions = SUPPORTED if tier == "thorough" else SUPPORTED
    for v in versions:
        srcf = wd / f"nosrc_{v}.py"
        srcf.write_text(_NS)
        pr = subprocess.run([str(INTERP[v]), "-c", "import py_compile, sys; py_compile.compile(sys.argv[1], cfile=sys.argv[2], doraise=True)",
                             str(srcf), str(moddir / f"verifnosrc_{v}.pyc")], capture_output=True, text=True)
        if pr.returncode:
            rep.machinery_error(f"could not write a sourceless module for {v}: {pr.stderr[-200:]}")
    pool = Pool(versions, per_version=1)
    jobs = []
    try:
        exp = {}
        for v in versions:
            w = pool.one(v)
            for p in PROGRAMS:
                vals = source_values(p, wd, v)
                for k in ("file", "c", "e", "m"):
                    if k == "file" and p.get("stdin"):
                        exp[(v, p["id"], k)] = w.req("cli.expected", kind="file", value=str(wd / f"prog_{p['id']}.py"),
                                                     modpath=str(moddir), filename="/dev/stdin")
                        continue
                    exp[(v, p["id"], k)] = w.req("cli.expected", kind=k, value=vals[k], modpath=str(moddir))
    finally:
        pool.close()
    for v in versions:
        for oi, o in enumerate(opts):
            progs = PROGRAMS if len(o["src"]) == 1 and (tier == "thorough" or oi % 4 == 0) else PROGRAMS[:1]
            if len(o["src"]) == 2 and not o["flags"]:
                progs = PROGRAMS[:1] + [p for p in PROGRAMS if p["id"].startswith("same_")]
            for p in progs:
                jobs.append((v, oi, o, p))

    def one(job):
        v, oi, o, p = job
        vals = source_values(p, wd, v)
        argv = []
        if "file" in o["src"]:
            argv.append(vals["file"])
        for k in ("c", "e", "m"):
            if k in o["src"]:
                argv += ["-" + k, vals[k]]
        for f in o["flags"]:
            argv.append("--" + f.replace("_", "-"))
        env = dict(os.environ, PYTHONPATH=f"{REPO}:{HARNESS / 'shim'}:{moddir}", PYTHONDONTWRITEBYTECODE="1", PYTHONHASHSEED="0",
                   PYTHONIOENCODING="utf-8")
        pr = subprocess.run([str(INTERP[v]), "-X", "utf8", "-c", "from code_data._cli import main; main()", *argv],
                            capture_output=True, text=True, env=env, timeout=120, cwd=str(wd),
                            input=p["text"] if (p.get("stdin") and "file" in o["src"]) else None)
        sp = split_output(pr.stdout)
        e = {"id": f"cli:{v}:{oi}:{p['id']}", "ver": v, "src": o["src"], "flags": o["flags"], "exit": pr.returncode,
             "printed_data": sp["printed_data"], "data_is_norm": False, "data_is_raw": False, "has_json": sp["has_json"],
             "json_loads": False, "json_is_norm": False, "json_is_raw": False, "dis_same": False,
             "stderr": pr.stderr[-200:]}
        if len(o["src"]) == 1 and sp["printed_data"]:
            x = exp[(v, p["id"], o["src"][0])]
            e["data_is_norm"] = sp["data"] == x["norm_repr"]
            e["data_is_raw"] = sp["data"] == x["raw_repr"]
            if sp["json"] is not None:
                from_cli = json.dumps(canon(sp["json"]), sort_keys=True)
                e["json_loads"] = True
                e["json_is_norm"] = from_cli == x["norm_json"]
                e["json_is_raw"] = from_cli == x["raw_json"]
            if "dis" in o["flags"] and "dis_after" in o["flags"]:
                a, b = listing(sp["before"]), listing(sp["after"])
                e["dis_same"] = bool(a) and a == b
        return e

    with ThreadPoolExecutor(max_workers=NCPU) as ex:
        evs = list(ex.map(one, jobs))
    files = []
    for i in range(0, len(evs), 2000):
        f = str(wd / f"cli-{i}.ndjson")
        with open(f, "w") as fh:
            for e in evs[i:i + 2000]:
                fh.write(json.dumps(e, separators=(",", ":")) + "\n")
        files.append(f)
    rep.cov["evaluations"] = len(evs)
    rep.cov["distinct_nontrivial"] = sum(1 for e in evs if len(e["src"]) == 1)
    rep.cov["rule"] = ("cases = (interpreter, option set, program) command-line runs; non-trivial = runs with exactly one source "
                       "(the others must be usage errors)")
    rep.cov["exhaustive"] = True
    rep.cov["explanation"] = ("all 512 option sets (16 source combinations x 32 flag combinations) on each of 3.7-3.10 with one "
                              f"program; valid option sets also with {len(PROGRAMS)} programs (nan/inf/-0.0, bytes, Ellipsis, "
                              "nested code, big ints; file on disk, -c with escaped newline, -e with linesep, -m module)")
    rep.sample({"argv_example": ["-c", source_values(PROGRAMS[1], wd)["c"], "--json", "--no-normalize"]})
    fails = df.validate(rep, files, "Trace_Cli")

    def keyfn(evid, clauses):
        return f"{PID}/{'+'.join(sorted(set(c.split('.', 1)[1] for c in clauses)))}/ver{evid.split(':')[1]}"

    def corrupt(e):
        e["exit"] = 2 - e["exit"] if e["exit"] in (0, 2) else 0
        return e

    df.negative_control(rep, files, "Trace_Cli", corrupt, ("P16.exit",))
    df.classify(rep, fails, ("P16.",), PID, keyfn)


def canon(x):
    if isinstance(x, dict):
        if set(x) == {"frozenset"} and isinstance(x["frozenset"], list):
            return {"frozenset": sorted((canon(v) for v in x["frozenset"]), key=lambda q: json.dumps(q, sort_keys=True))}
        return {k: canon(v) for k, v in x.items()}
    if isinstance(x, list):
        return [canon(v) for v in x]
    return x


def source_values(p, wd, v=""):
    text = p["text"]
    if "values" in p:
        return dict({k: x.replace("{v}", v) for k, x in p["values"].items()},
                    file="/dev/stdin" if p.get("stdin") else str(wd / f"prog_{p['id']}.py"))
    return {
        "file": str(wd / f"prog_{p['id']}.py"),
        "c": text.replace("\\", "\\\\").replace("\n", "\\n") if "\\" not in text else text.replace("\n", "\\n"),
        "e": " + linesep + ".join(repr(ln) for ln in text.split("\n")),
        "m": f"verifmod_{p['id']}",
    }
