"""Shared pipeline of the API-history checks (C06, C12; C07/C15 reuse the bases)."""
from __future__ import annotations

import json
from concurrent.futures import ThreadPoolExecutor

from common import NCPU, SUPPORTED, Pool, Report, chunks, run_tlc, seed, tla_unescape, tlc_prints

BASES = [
    {"id": "allparams", "target": "f",
     "src": "def f(a, b=1, *c, d, e=2, **g):\n    'doc'\n    x = (a, 1.5, b'q', None, ..., 2j, -0.0)\n    for i in c:\n        if i in {1, 2, 3}:\n            return 'z'\n    return x\n"},
    {"id": "closure", "target": "outer",
     "src": "def outer(a):\n    k = a + 1\n    def inner(b):\n        return a + b + k\n    return inner\n"},
    {"id": "module",
     "src": "import os.path as p\nX = [i * 2 for i in range(3)]\nclass K:\n    'kdoc'\n    def m(self):\n        return __class__\ny = 1e999 - 1e999\nz = (1, (2, 'three'), frozenset({4, 5}))\n"},
    {"id": "deadcode", "target": "f",
     "src": "def f(a):\n    while a:\n        a -= 1\n        if a == 3:\n            return a\n            a += 100\n    return 'done'\n    x = 5\n"},
    {"id": "asyncgen", "target": "f",
     "src": "async def f(a, /, b):\n    async for i in a:\n        yield i + b\n" if True else ""},
    {"id": "lambda_default", "src": "f = lambda x, y=(1,\n   2): x\n"},
    {"id": "tryfinally", "target": "f",
     "src": "def f(a, b):\n    try:\n        return a // b\n    except ZeroDivisionError as e:\n        return str(e)\n    finally:\n        print('x')\n"},
]


def bases_for(ver: str):
    out = []
    for b in BASES:
        if ver == "37" and "/," in b["src"]:
            b = dict(b, src=b["src"].replace("a, /, b", "a, b"))
        out.append(b)
    return out


def histories(rep: Report, wd, maxlen: int):
    cfg = wd / "MC_Api.cfg"
    cfg.write_text(f"SPECIFICATION Spec\nCONSTANTS\n  MaxLen = {maxlen}\n  Emit = TRUE\nCONSTRAINT Bounded\nINVARIANT TypeOK\nINVARIANT EmitHistory\n")
    r = run_tlc("MC_Api", str(cfg), workers=8, timeout=1800, heap="6g")
    rep.add_tlc(r, f"MC_Api[len<={maxlen}]")
    hs = [json.loads(tla_unescape(s)) for s in tlc_prints(r.out)]
    if not hs:
        rep.machinery_error(f"MC_Api emitted nothing: {r.out[-400:]}")
    return hs


def replay(rep: Report, wd, hs, versions=SUPPORTED, nbases=None):
    pool = Pool(versions, per_version=4)
    files = []
    try:
        args = {}
        k = 0
        for v in versions:
            args[v] = []
            bs = bases_for(v)[:nbases] if nbases else bases_for(v)
            for b in bs:
                for ch in chunks(hs, 400):
                    k += 1
                    f = str(wd / f"api-{v}-{k}.ndjson")
                    files.append(f)
                    args[v].append({"bases": [b], "histories": ch, "path": f, "seed": seed()})
        res = pool.map_all("api.histories_to_file", args)
    finally:
        pool.close()
    rep.cov["histories_replayed"] = sum(sum(x) for x in res.values())
    return files
