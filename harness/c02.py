"""C02 - decoded instructions, operands, jumps and lines match CPython's own reading."""
from __future__ import annotations

import decode_family as df
from common import SUPPORTED, Pool, Report, workdir

PREFIX = ("P02.",)
PID = "C02"


def keyfn(evid, clauses):
    kind = evid.split(":")[0]
    return f"{PID}/{'+'.join(sorted(c.split('.')[1] for c in clauses))}/{ 'synthetic' if kind == 'g' else 'compiled'}/ver{df.ver_of(evid)}"


def run(tier: str, rep: Report, prefix=PREFIX, pid=PID, keyf=None):
    wd = workdir(pid.lower())
    rep.assumptions += [
        "interpreters: pyenv 3.7.16, 3.8.18, 3.9.18, 3.10.13; code_data imported from the working tree",
        "oracle: dis.get_instructions, PyCode_Addr2Line and the dis.has* tables of each interpreter; the TLA+ "
        "environment model (CPyUnits, CPyLines) is required to agree with them on every event (else exit 2)",
        "operands >= 2**31 (bpo-46724 wrap) are kept out of TLC (32-bit integers) and counted under 'wide'",
    ]
    gen = df.run_models(rep, tier, wd)
    pool = Pool(SUPPORTED, per_version=4)
    try:
        files = df.collect_events(rep, tier, wd, pool, gen, replay_limit=20000 if tier == "quick" else 150000)
    finally:
        pool.close()
    fails = df.validate(rep, files)
    def corrupt(e):
        ins = e.get("lib", {}).get("instrs") or []
        if e.get("lib", {}).get("exc") or not ins or ins[0][5] < 0:
            return None
        if prefix[0] == "P13.":
            e["lib"]["block_starts"] = e["lib"]["block_starts"] + [len(ins)]
            e["lib"]["block_lens"] = e["lib"]["block_lens"] + [0]
            return e
        if prefix[0] == "P09.":
            e["lib"]["additional"] = e["lib"]["additional"] + [["N", 999999, -1]]
            return e
        ins[0][5] += 1
        return e

    df.negative_control(rep, files, "Trace_Decode", corrupt, ("P02.lines",) if prefix[0] == "P02." else prefix)
    df.classify(rep, fails, prefix, pid, keyf or keyfn)
    rep.cov["evaluations"] += rep.cov["recorded"]["events"]
    nt = sum(1 for v in gen.values() for c in v if any(u[0] in ("JABS", "JREL", "EXT") for u in c["units"]))
    rep.cov["distinct_nontrivial"] = nt
    rep.cov["rule"] = ("cases = completed word-code streams of MC_Decode (distinct by construction) replayed as real code "
                       "objects + one event per compiled code object; non-trivial (counted on the generated streams only) = "
                       "contains a jump or an EXTENDED_ARG prefix")
    rep.cov["exhaustive"] = True
    rep.cov["explanation"] = ("MC_Decode exhaustive per interpreter version over all streams of <= "
                              f"{3 if tier == 'quick' else 4} code units, 9 operand classes x bytes {{0,1,2,4}}, "
                              f"<= {1 if tier == 'quick' else 2} EXTENDED_ARG prefixes; corpus = seeded stdlib sample + "
                              "repository examples + snippets (exec/eval/single)")
    for v in gen:
        for c in gen[v][:: max(1, len(gen[v]) // 2)][:2]:
            rep.sample({"ver": v, "model_stream": c["units"]})
