"""./check <ID> [--tier quick|thorough] [--replay file]"""
from __future__ import annotations

import argparse
import importlib
import os
import sys
import traceback

sys.dont_write_bytecode = True
sys.path.insert(0, os.path.dirname(os.path.abspath(__file__)))

import common  # noqa: E402


def main() -> int:
    ap = argparse.ArgumentParser()
    ap.add_argument("pid")
    ap.add_argument("--tier", default=os.environ.get("VERIF_TIER", "quick"), choices=["quick", "thorough"])
    ap.add_argument("--replay")
    a = ap.parse_args()
    pid = a.pid.upper()
    try:
        mod = importlib.import_module(pid.lower())
    except ImportError:
        traceback.print_exc()
        print(f"no check for {pid}", file=sys.stderr)
        return 2
    rep = common.Report(pid, a.tier)
    try:
        if a.replay:
            return mod.replay(a.replay, rep)
        mod.run(a.tier, rep)
    except common.MachineryError as e:
        rep.machinery_error(str(e))
    except Exception:
        rep.machinery_error("harness exception: " + traceback.format_exc())
    return rep.finish()


if __name__ == "__main__":
    sys.exit(main())
