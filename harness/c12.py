"""C12 - API calls are pure: no input mutation, repeatable, no shared mutable state.

TLC enumerates every history of the API machine (Api.tla) up to a length; each is replayed on real
objects (several base programs per interpreter; JSON documents are used as returned, never
re-parsed unless the history says so); after every call the worker fingerprints every live object
and compares the result with the earlier ones; Trace_Api.tla validates the recording."""
from __future__ import annotations

import api_family as af
import decode_family as df
from common import Report, workdir

PID = "C12"
# every function kind with plain and with star / closure / nested headers, plain ones first: the cold pass encodes a
# plain generator before any other generator has been encoded in the process, the warm pass after all of them
KINDS_SRC = ("def g0(a):\n    yield a\nasync def c0(a):\n    return a\nasync def ag0(a):\n    yield a\n"
             "def g1(a, *b, **c):\n    yield a\nasync def c1(*a, k=1, **kw):\n    return a\nasync def ag1(*a):\n    yield a\n"
             "def outer(x):\n    def g2():\n        yield x\n    async def c2():\n        return x\n"
             "    async def ag2(*y):\n        yield x\n    return g2, c2, ag2\n")


def run(tier: str, rep: Report, prefixes=("P12.",), pid=PID):
    wd = workdir(pid.lower())
    rep.assumptions += [
        "interpreters: pyenv 3.7.16, 3.8.18, 3.9.18, 3.10.13",
        "purity is observed through deep, type-exact fingerprints of every live object after every call",
    ]
    maxlen = 4 if tier == "quick" else 5
    hs = af.histories(rep, wd, maxlen)
    files = af.replay(rep, wd, hs, nbases=3 if tier == "quick" else None)
    rep.cov["evaluations"] = rep.cov["histories_replayed"]
    rep.cov["distinct_nontrivial"] = sum(1 for h in hs if len({(o, a) for o, a in h}) < len(h) or any(o == "Mutate" for o, a in h))
    rep.cov["rule"] = ("cases = (interpreter, base program, history) triples; histories are the distinct complete behaviours of "
                       f"MC_Api of length {maxlen}; non-trivial (counted per history) = repeats a call on the same object or "
                       "mutates a document")
    rep.cov["exhaustive"] = True
    rep.cov["explanation"] = (f"all histories of length {maxlen} over FromCode, ToCode, Normalize, ToJson, Dumps, Loads, FromJson, "
                              "Mutate applied to any live object of the right kind, starting from a code object and a layout variant")
    rep.sample({"history": hs[len(hs) // 2]})
    fails = df.validate(rep, files, "Trace_Api")
    # the JSON codec on every constant kind at every position (strings with lone surrogates included):
    # argument purity, repeatability and aliasing are recorded by the C07 worker and judged by Trace_Json
    import c07
    from common import SUPPORTED, Pool, chunks

    terms = c07.model_terms(rep, wd, 1)
    if tier == "quick":
        terms = [t for k, t in enumerate(terms) if t[1][0] in ("atom", "complex") or k % 5 == 0]
    # ... and on every document shape of MC_Doc (each optional field of each dataclass present/absent, private
    # override fields on every argument kind, nested code constants)
    shapes = c07.model_shapes(rep, wd)
    if tier == "quick":
        shapes = [s for i, s in enumerate(shapes) if s[0].startswith("instr") or i % 2 == 0]
    pool = Pool(SUPPORTED, per_version=4)
    jfiles = []
    try:
        args = {}
        sargs = {}
        k = 0
        for v in SUPPORTED:
            args[v] = []
            for ch in chunks(terms, 40):
                k += 1
                f = str(wd / f"terms-{v}-{k}.ndjson")
                jfiles.append(f)
                args[v].append({"terms": ch, "path": f})
            sargs[v] = [j[1] for j in c07.shape_jobs(shapes, wd, v, jfiles, 100000)]
        res = pool.map_all("jsonw.terms_to_file", args)
        sres = pool.map_all("jsonw.shapes_to_file", sargs)
    finally:
        pool.close()
    # history independence: documents written by one process, loaded by a fresh process first thing and again after it
    # has encoded / decoded every term (the vast integers included) and a slice of the shapes
    from common import Worker
    import json as _json

    cwterms = [t for t in terms if t[1][0] == "atom"] + [t for t in terms if t[1][0] != "atom"][:60]

    def coldwarm(v):
        pf = str(wd / f"prod-{v}.ndjson")
        prod = Worker(v)
        try:
            prod.req("jsonw.produce", path=pf, terms=cwterms, sources=[{"id": "basic", "src": "x = 1\ny = [lambda: 0, 2.5]\n"}, {"id": "kinds", "src": KINDS_SRC}],
                     ladder=[1, 2, 5, 20, 50, 80, 99, 100, 101, 102, 120, 150], bad=True)
        finally:
            prod.close()
        w = Worker(v)
        try:
            first = w.req("jsonw.load_outcomes", path_in=pf)
            w.req("jsonw.terms_to_file", terms=cwterms, path=str(wd / f"cw-terms-{v}.ndjson"))
            w.req("jsonw.shapes_to_file", shapes=shapes[:60], path=str(wd / f"cw-shapes-{v}.ndjson"))
            w.req("jsonw.exotic_calls")
            later = w.req("jsonw.load_outcomes", path_in=pf)
        finally:
            w.close()
        f = str(wd / f"coldwarm-{v}.ndjson")
        with open(f, "w") as fh:
            fh.write(_json.dumps({"id": "schema", "kind": "schema", "tree": ["o", []]}) + "\n")
            for (i1, o1), (i2, o2) in zip(first, later):
                fh.write(_json.dumps({"id": f"cw:{v}:{i1}", "kind": "coldwarm", "first": o1, "later": o2}) + "\n")
        return f, len(first)

    from concurrent.futures import ThreadPoolExecutor as _TPE
    with _TPE(max_workers=4) as ex:
        cw = list(ex.map(coldwarm, SUPPORTED))
    cwfiles = [f for f, _ in cw]
    rep.cov["documents_loaded_cold_and_warm"] = sum(n for _, n in cw)
    c07.vt_pass(jfiles)
    fails += df.validate(rep, cwfiles, "Trace_Json", expect_delta=0)
    rep.cov["json_codec_documents_probed_for_purity"] = sum(sum(x) for x in res.values()) + sum(x[0] for xs in sres.values() for x in xs)
    rep.cov["document_shapes"] = len(shapes)
    fails += df.validate(rep, jfiles, "Trace_Json", expect_delta=0)

    def keyfn(evid, clauses):
        parts = evid.split(":")
        return f"{pid}/{'+'.join(sorted(set(c.split('.')[1] for c in clauses)))}/{parts[0]}/ver{parts[1]}"

    def corrupt(e):
        if "steps" not in e or not e["steps"]:
            return None
        e["steps"][-1]["changed"] = [1]
        return e

    df.negative_control(rep, files, "Trace_Api", corrupt, ("P12.pure",))
    df.classify(rep, fails, prefixes, pid, keyfn)
