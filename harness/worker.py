"""Worker process: runs under every interpreter 3.7 ... 3.13 (keep the syntax 3.7-clean).

Protocol: one JSON object per line on stdin  {"cmd": name, "a": {kwargs}}
          one JSON object per line on stdout {"ok": true, "r": result} | {"ok": false, "exc": ..., "tb": ...}
`ok: false` means the *harness* code raised; exceptions of the library under test are
caught by the command implementations and returned as data.
"""
import importlib
import json
import os
import sys
import traceback

sys.dont_write_bytecode = True
REPO = os.environ.get("VERIF_REPO", "/repo")
HARNESS = os.environ.get("VERIF_HARNESS", os.path.dirname(os.path.abspath(__file__)))
sys.path.insert(0, REPO)
sys.path.insert(1, HARNESS)
try:
    import typing_extensions  # noqa: F401
except ImportError:
    sys.path.append(os.path.join(HARNESS, "shim"))

VER = "%d%d" % sys.version_info[:2]

_real_stdout = sys.stdout
sys.stdout = sys.stderr  # nothing the library or a compiled program prints may corrupt the protocol

_mods = {}


def dispatch(cmd, args):
    modname, _, fn = cmd.partition(".")
    if modname not in _mods:
        _mods[modname] = importlib.import_module("wk." + modname)
    return getattr(_mods[modname], fn)(**args)


class LibraryTimeout(Exception):
    """a public call of the library did not return within the guard: reported like any exception it raises"""


_timeouts = [0]


def install_guards(seconds=60):
    """Non-termination must become an observation, not a hung check: the outermost from_code / to_code / normalize /
    to_json_data / from_json_data call of this process runs under a CPU-time guard (ITIMER_VIRTUAL: the budget does
    not shrink when the machine is busy; calls made while
    a guard - the harness' own shorter one included - is already armed are left alone)."""
    import signal

    try:
        from code_data import CodeData
    except BaseException:  # noqa: hosts that cannot import the library report that through their commands
        return
    if not hasattr(signal, "setitimer"):
        return

    def alarm(signum, frame):
        _timeouts[0] += 1
        raise LibraryTimeout("no result within the guard")

    def wrap(fn):
        def guarded(*a, **kw):
            if signal.getitimer(signal.ITIMER_VIRTUAL)[0] > 0:
                return fn(*a, **kw)
            old = signal.signal(signal.SIGVTALRM, alarm)
            # after three expiries in this process the guard is short: a check must end, whatever the library does
            signal.setitimer(signal.ITIMER_VIRTUAL, seconds if _timeouts[0] < 3 else 5)
            try:
                return fn(*a, **kw)
            finally:
                signal.setitimer(signal.ITIMER_VIRTUAL, 0)
                signal.signal(signal.SIGVTALRM, old)
        guarded.__name__ = getattr(fn, "__name__", "guarded")
        guarded.__doc__ = getattr(fn, "__doc__", None)
        return guarded

    for name in ("to_code", "normalize", "to_json_data"):
        setattr(CodeData, name, wrap(getattr(CodeData, name)))
    for name in ("from_code", "from_json_data"):
        setattr(CodeData, name, classmethod(wrap(getattr(CodeData, name).__func__)))


def main():
    install_guards()
    _real_stdout.write(json.dumps({"hello": VER}) + "\n")
    _real_stdout.flush()
    for line in sys.stdin:
        line = line.strip()
        if not line:
            continue
        try:
            msg = json.loads(line)
            r = dispatch(msg["cmd"], msg.get("a") or {})
            out = json.dumps({"ok": True, "r": r})
        except BaseException as e:  # noqa
            if isinstance(e, (KeyboardInterrupt, SystemExit)) and not isinstance(e, SystemExit):
                raise
            out = json.dumps({"ok": False, "exc": "%s: %s" % (type(e).__name__, e), "tb": traceback.format_exc()})
        _real_stdout.write(out + "\n")
        _real_stdout.flush()


if __name__ == "__main__":
    main()
