"""Worker process: runs under every interpreter 3.7 ... 3.13 (keep the syntax 3.7-clean).

Protocol: one JSON object per line on stdin  {"cmd": name, "a": {kwargs}}
          one JSON object per line on stdout {"ok": true, "r": result} | {"ok": false, "exc": ..., "tb": ...}
`ok: false` means the *harness* code raised; exceptions of the library under test are
caught by the command implementations and returned as data.
"""
import importlib
import json
import os
import sys
import traceback

sys.dont_write_bytecode = True
REPO = os.environ.get("VERIF_REPO", "/repo")
HARNESS = os.environ.get("VERIF_HARNESS", os.path.dirname(os.path.abspath(__file__)))
sys.path.insert(0, REPO)
sys.path.insert(1, HARNESS)
try:
    import typing_extensions  # noqa: F401
except ImportError:
    sys.path.append(os.path.join(HARNESS, "shim"))

VER = "%d%d" % sys.version_info[:2]

_real_stdout = sys.stdout
sys.stdout = sys.stderr  # nothing the library or a compiled program prints may corrupt the protocol

_mods = {}


def dispatch(cmd, args):
    modname, _, fn = cmd.partition(".")
    if modname not in _mods:
        _mods[modname] = importlib.import_module("wk." + modname)
    return getattr(_mods[modname], fn)(**args)


def main():
    _real_stdout.write(json.dumps({"hello": VER}) + "\n")
    _real_stdout.flush()
    for line in sys.stdin:
        line = line.strip()
        if not line:
            continue
        try:
            msg = json.loads(line)
            r = dispatch(msg["cmd"], msg.get("a") or {})
            out = json.dumps({"ok": True, "r": r})
        except BaseException as e:  # noqa
            if isinstance(e, (KeyboardInterrupt, SystemExit)) and not isinstance(e, SystemExit):
                raise
            out = json.dumps({"ok": False, "exc": "%s: %s" % (type(e).__name__, e), "tb": traceback.format_exc()})
        _real_stdout.write(out + "\n")
        _real_stdout.flush()


if __name__ == "__main__":
    main()
