"""Implementation-side corpus: which real source files are compiled on which interpreter."""
from __future__ import annotations

import random
from pathlib import Path

from common import INTERP, REPO, seed

# inputs that once exposed a finding are part of every tier (DESIGN 4.5 (f))
PINNED_REL = ["test/support/__init__.py", "test/test_float.py"]


def stdlib_root(ver: str) -> Path:
    exe = INTERP[ver]
    return exe.parent.parent / "lib" / f"python3.{ver[1:]}"


_cache: dict[str, list[str]] = {}


def stdlib_files(ver: str) -> list[str]:
    if ver not in _cache:
        root = stdlib_root(ver)
        fs = []
        for p in sorted(root.rglob("*.py")):
            s = str(p)
            if "site-packages" in s or "/lib2to3/tests/data/" in s or "/test/bad" in s:
                continue
            fs.append(s)
        _cache[ver] = fs
    return _cache[ver]


def sample_files(ver: str, n: int | None, salt: str = "") -> list[str]:
    fs = stdlib_files(ver)
    root = stdlib_root(ver)
    pinned = [str(root / r) for r in PINNED_REL if (root / r).exists()]
    if n is None or n >= len(fs):
        return fs
    rnd = random.Random(f"{seed()}:{ver}:{salt}")
    pick = rnd.sample(fs, n)
    return sorted(set(pick) | set(pinned))


def repo_examples() -> list[str]:
    d = REPO / "code_data" / "_test_minimized"
    return sorted(str(p) for p in d.glob("*.py"))
