"""C03 - encoding any well-formed CodeData yields code that says what the data says.

1. TLC, MC_Relax.tla: the relaxation loop on every jump graph within the bounds: termination
   (liveness), pass bound, monotone sizes, jumps land.  Every graph is rebuilt by hand as CodeData
   (no private fields) on 3.7-3.10 and encoded by the real library under a wall-clock guard.
2. Every code object of the corpus is decoded and both the decoded and the normalised data are
   encoded by the real library.
All to_code() calls are recorded (input data, the relaxation passes logged by the guarded hook,
CPython's own reading of the output, decode-again) and validated by TLC against Trace_Encode.tla."""
from __future__ import annotations

import json
import random
from concurrent.futures import ThreadPoolExecutor

import corpus
import decode_family as df
from common import NCPU, SUPPORTED, Pool, Report, chunks, run_tlc, seed, tla_unescape, tlc_prints, workdir

PID = "C03"
# clause prefixes that are C03's when evaluated on encode events (see Trace_Encode.tla)
PREFIX = ("P03.", "P02.", "P04.", "P13.partition", "P13.jump_range")

PADS = {
    "quick": {3: "{0, 1, 127, 128, 255, 256}"},
    "thorough": {3: "{0, 1, 126, 127, 128, 129, 254, 255, 256, 257}", 4: "{0, 1, 127, 128, 255, 256}"},
}


def relax_models(rep: Report, tier: str, wd):
    graphs = {1: [], 2: []}
    jobs = [(nb, pads, scale, "grid") for nb, pads in PADS[tier].items() for scale in (1, 2)]
    # chains of dependent growths: K jumps, one more pass of the loop per jump (K + 1 passes)
    maxk = 6 if tier == "quick" else 9
    jobs.append((maxk, "{" + ", ".join(map(str, range(110, 129))) + "}", 1, "cascade"))
    jobs.append((maxk, "{" + ", ".join(map(str, range(238, 258))) + "}", 2, "cascade"))
    # a free-variable operand that crosses the one-byte boundary once the number of cell variables is added
    jobs.append((2, "{0, 1, 254, 255, 256, 257}", 1, "freeshift"))
    jobs.append((2, "{0, 1, 254, 255, 256, 257}", 2, "freeshift"))

    def mc(job):
        nb, pads, scale, fam = job
        cfg = wd / f"MC_Relax_{fam}_{nb}_{scale}.cfg"
        cfg.write_text(f"SPECIFICATION Spec\nCONSTANTS\n  NB = {nb}\n  Pads = {pads}\n  Scale = {scale}\n  Family = \"{fam}\"\n"
                       f"  MaxK = {nb}\n  Emit = TRUE\n"
                       "INVARIANT PassBound\nINVARIANT JumpsLand\nINVARIANT JumpsLandFinal\nINVARIANT EmitDone\n"
                       "PROPERTY Terminates\nPROPERTY SizesGrow\n")
        return job, run_tlc("MC_Relax", str(cfg), workers=max(2, NCPU // len(jobs)), timeout=3000, heap="8g")

    with ThreadPoolExecutor(max_workers=len(jobs)) as ex:
        for (nb, pads, scale, fam), r in ex.map(mc, jobs):
            rep.add_tlc(r, f"MC_Relax[{fam},{'blocks' if fam == 'grid' else 'maxK'}={nb},pads={pads},scale={scale}] (+liveness)")
            if r.violated:
                rep.machinery_error(f"MC_Relax[{fam},{nb},{scale}] property violated on the reference encoder: {r.violated[:3]}")
            n = 0
            for s in tlc_prints(r.out):
                pads_, jumps, passes, final = json.loads(tla_unescape(s))
                n += 1
                graphs[scale].append({"id": f"g:{fam[0]}{nb}:{scale}:{n}", "family": fam, "pads": pads_, "jumps": jumps, "passes": passes,
                                      "jumpargs": [x[0] for x in final]})
            rep.cov.setdefault("model_graphs", {})[f"{fam},{nb},scale={scale}"] = n
            if n == 0:
                rep.machinery_error(f"MC_Relax[{fam},{nb},{scale}] emitted nothing: {r.out[-500:]}")
    return graphs


def nontrivial(g):
    return g["passes"] > 1 or any(a > 255 for a in g["jumpargs"]) or g.get("family") == "freeshift"


def deep(g):
    return g["passes"] > 3 or g.get("family") == "freeshift"


def run(tier: str, rep: Report):
    wd = workdir("c03")
    rep.assumptions += [
        "interpreters: pyenv 3.7.16, 3.8.18, 3.9.18, 3.10.13; code_data from the working tree with CODE_DATA_VERIF=1 "
        "(the guarded hook logs every relaxation pass)",
        "oracle: dis / PyCode_Addr2Line / the calling convention of the code object to_code() returned",
        "well-formed = Trace_Encode!WellFormed: non-empty blocks, jump targets in range, relative jumps forward, free "
        "variables named, no private override fields; on <=3.9 every instruction has a line (co_lnotab cannot express "
        "'no line'); positional-only parameters only from 3.8",
    ]
    graphs = relax_models(rep, tier, wd)
    # signature shapes (MC_Signature) as hand-built functions
    scfg = wd / "MC_Signature.cfg"
    scfg.write_text(f'SPECIFICATION Spec\nCONSTANTS\n  N = {2 if tier == "quick" else 3}\n  Ver = "38"\n  Emit = TRUE\nINVARIANT SignatureMatches\n')
    rs = run_tlc("MC_Signature", str(scfg), workers=4, timeout=900, extra=["-continue"])
    rs.errors = [e for e in rs.errors if "behavior up to this point" not in e]
    rep.add_tlc(rs, "MC_Signature[shapes for hand-built functions]")
    sig_cases = []
    for n, s_ in enumerate(tlc_prints(rs.out)):
        sh = json.loads(tla_unescape(s_))
        sig_cases.append({"id": f"s:{n}", "shape": sh, "doc": "the doc" if n % 2 else None})
    if not sig_cases:
        rep.machinery_error(f"MC_Signature emitted nothing: {rs.out[-300:]}")
    # line programs (MC_Lines): per-instruction lines with forward/backward jumps around every split boundary
    lineprogs = {}
    for asm in ("a39", "a310"):
        lcfg = wd / f"MC_Lines_{asm}_synth.cfg"
        lcfg.write_text(f"SPECIFICATION Spec\nCONSTANTS\n  Asm = \"{asm}\"\n  MaxRuns = {2 if tier == 'quick' else 3}\n"
                        f"  Sizes = {{1, 2, 128}}\n  LineVals <- LV_quick{'_nl' if asm == 'a310' else ''}\n  Removal = FALSE\n"
                        "  Emit = TRUE\nINVARIANT C10Model\n")
        rl_ = run_tlc("MC_Lines", str(lcfg), workers=8, timeout=1800, extra=["-continue"], heap="6g")
        rl_.errors = [e for e in rl_.errors if "behavior up to this point" not in e]
        rep.add_tlc(rl_, f"MC_Lines[{asm}, line programs for synthesis]")
        ps = []
        seen = set()
        for s_ in tlc_prints(rl_.out):
            o = json.loads(tla_unescape(s_))
            key = json.dumps(o[1])
            if key not in seen:
                seen.add(key)
                ps.append({"id": f"l:{asm}:{len(ps)}", "prog": o[1]})
        lineprogs[asm] = ps
        if not ps:
            rep.machinery_error(f"MC_Lines[{asm}] emitted nothing for line synthesis: {rl_.out[-300:]}")
    rep.cov["line_programs"] = {a: len(v) for a, v in lineprogs.items()}
    # inconsistent position overrides (gaps, collisions): MC_Overrides
    ocfg = wd / "MC_Overrides.cfg"
    ocfg.write_text(f"SPECIFICATION Spec\nCONSTANTS\n  MaxInstr = 3\n  MaxOvr = {3 if tier == 'quick' else 4}\n  Emit = TRUE\nINVARIANT OverridesSafe\n")
    ro = run_tlc("MC_Overrides", str(ocfg), workers=4, timeout=1800, extra=["-continue"])
    ro.errors = [e for e in ro.errors if "behavior up to this point" not in e]
    rep.add_tlc(ro, "MC_Overrides[<=3 LOAD_CONST of {1, True, 2}, overrides -2..3]")
    rep.cov["model_invariant_violations_MC_Overrides"] = len(ro.violated)
    ovr_cases = []
    for n, s_ in enumerate(tlc_prints(ro.out)):
        o = json.loads(tla_unescape(s_))
        if o["prog"]:
            ovr_cases.append({"id": f"o:{n}", "prog": o["prog"], "raises": o["raises"]})
    if not ovr_cases:
        rep.machinery_error(f"MC_Overrides emitted nothing: {ro.out[-300:]}")
    rnd = random.Random(seed() + 3)
    limit = 4000 if tier == "quick" else 8000
    pool = Pool(SUPPORTED, per_version=4)
    files = []
    try:
        jobs = {v: [] for v in SUPPORTED}
        k = 0
        nrep = 0
        for v in SUPPORTED:
            gs = graphs[2 if v == "310" else 1]
            interesting = [g for g in gs if nontrivial(g)]
            rest = [g for g in gs if not nontrivial(g)]
            deepg = [g for g in interesting if deep(g)]
            interesting = [g for g in interesting if not deep(g)]
            pick = deepg + (interesting if len(interesting) <= limit else rnd.sample(interesting, limit))
            pick = pick + rnd.sample(rest, min(len(rest), max(200, limit // 10)))
            nrep += len(pick)
            for ch in chunks(pick, 250):
                k += 1
                f = str(wd / f"graphs-{v}-{k}.ndjson")
                files.append(f)
                jobs[v].append(("encode.graphs_to_file", {"cases": [dict(g, id=g["id"] + ":" + v) for g in ch], "path": f}))
            for ch in chunks(sig_cases, 300):
                k += 1
                f = str(wd / f"sig-{v}-{k}.ndjson")
                files.append(f)
                jobs[v].append(("encode.signatures_to_file", {"cases": [dict(c, id=c["id"] + ":" + v) for c in ch], "path": f}))
            sizes = [254, 255, 256, 257] + ([65535, 65536] if tier == "thorough" and v in ("38", "310") else [])
            # 257 entries are also decided directly (binds wk/encode.direct_event to the TLC verdict on the same data)
            bt = [{"id": f"b:{kind}:{n_}:{v}", "n": n_, "kind": kind, "direct": False} for n_ in sizes if n_ < 1000
                  for kind in ("names", "consts", "locals")]
            bt += [{"id": f"b:{kind}:{n_}:{v}:direct", "n": n_, "kind": kind, "direct": True} for n_ in sizes if n_ == 257 or n_ > 1000
                   for kind in ("names", "consts", "locals")]
            for ch in chunks(bt, 4):
                k += 1
                f = str(wd / f"big-{v}-{k}.ndjson")
                files.append(f)
                jobs[v].append(("encode.bigtables_to_file", {"cases": ch, "path": f}))
            import itertools
            fo = [{"id": f"f:{''.join(pm)}:{int(cell)}:{v}", "order": list(pm), "cell": cell}
                  for pm in itertools.permutations(("a", "b", "c")) for cell in (False, True)]
            fo += [{"id": f"f:tcs:{int(cell)}:{v}", "order": ["total", "count", "step"], "cell": cell} for cell in (False, True)]
            k += 1
            f = str(wd / f"freeorder-{v}-{k}.ndjson")
            files.append(f)
            jobs[v].append(("encode.freeorder_to_file", {"cases": fo, "path": f}))
            lp = lineprogs["a310" if v == "310" else "a39"]
            for ch in chunks(lp, 150):
                k += 1
                f = str(wd / f"lines-{v}-{k}.ndjson")
                files.append(f)
                jobs[v].append(("encode.lineprogs_to_file", {"cases": [dict(c, id=c["id"] + ":" + v) for c in ch], "path": f}))
            for ch in chunks(ovr_cases, 1000):
                k += 1
                f = str(wd / f"ovr-{v}-{k}.ndjson")
                files.append(f)
                jobs[v].append(("encode.overrides_to_file", {"cases": [dict(c, id=c["id"] + ":" + v) for c in ch], "path": f}))
            nfiles = 40 if tier == "quick" else 400
            fs = corpus.sample_files(v, nfiles, "encode") + corpus.repo_examples()
            for opt in ([0] if tier == "quick" else [0, 2]):
                for ch in chunks(fs, 8):
                    k += 1
                    f = str(wd / f"corpus-{v}-{k}.ndjson")
                    files.append(f)
                    jobs[v].append(("encode.corpus_to_file", {"files": ch, "path": f, "optimize": opt}))
            srcs = [{"id": f"ex:{n}", "src": s} for n, s in df.REPO_EXAMPLES.items()]
            srcs += [{"id": f"sn:{i}", "src": s, "mode": m} for i, (m, s) in enumerate(df.SNIPPETS)]
            k += 1
            f = str(wd / f"src-{v}-{k}.ndjson")
            files.append(f)
            jobs[v].append(("encode.sources_to_file", {"sources": srcs, "path": f}))
        rep.cov["graphs_replayed"] = nrep

        def runjobs(v):
            ws = pool.workers[v]

            def go(wi):
                return [ws[wi].req(jobs[v][j][0], **jobs[v][j][1]) for j in range(wi, len(jobs[v]), len(ws))]

            with ThreadPoolExecutor(max_workers=len(ws)) as ex2:
                return [x for xs in ex2.map(go, range(len(ws))) for x in xs]

        with ThreadPoolExecutor(max_workers=4) as ex:
            outs = list(ex.map(runjobs, SUPPORTED))
    finally:
        pool.close()
    st = {"events": 0, "skipped": 0, "big": 0, "wide": 0, "from_code_exc": 0}
    for o in outs:
        for x in o:
            if isinstance(x, dict):
                for kk in st:
                    st[kk] += x.get(kk, 0)
            else:
                st["events"] += x
    rep.cov["recorded"] = st
    ng = sum(len(v) for v in graphs.values())
    rep.cov["evaluations"] = ng + st["events"]
    rep.cov["distinct_nontrivial"] = sum(1 for v in graphs.values() for g in v if nontrivial(g))
    rep.cov["rule"] = ("cases = jump graphs of MC_Relax (distinct states) + one event per to_code() call on corpus data; "
                       "non-trivial (counted on the graphs) = the loop needed more than one pass or some jump operand "
                       "needs more than one code unit")
    rep.cov["exhaustive"] = True
    rep.cov["explanation"] = ("MC_Relax exhaustive over all graphs of " +
                              "; ".join(f"{nb} blocks with paddings {p}" for nb, p in PADS[tier].items()) +
                              ", one optional jump per block (absolute to any block / relative to a later block), both "
                              "operand scalings, with liveness; plus the cascade family (K chained jumps, K + 1 passes) for K up to "
                              f"{6 if tier == 'quick' else 9} over a window of paddings around the one-byte boundary; replayed graphs: every non-trivial one up to "
                              f"{limit} per interpreter (seeded sample beyond) + a sample of trivial ones")
    for sc in (1, 2):
        nt = [g for g in graphs[sc] if nontrivial(g)]
        if nt:
            rep.sample({"scale": sc, "graph": nt[len(nt) // 2]})
    fails = df.validate(rep, files, "Trace_Encode")

    def keyfn(evid, clauses):
        src = "graph" if evid.startswith("g:") else "overrides" if evid.startswith("o:") else "lineprog" if evid.startswith("l:") else "signature" if evid.startswith("s:") else "freeorder" if evid.startswith("f:") else "bigtable" if evid.startswith("b:") else ("normalized" if evid.endswith(":norm") else "decoded")
        return f"{PID}/{'+'.join(sorted(set(c.split('.', 1)[1] for c in clauses)))}/{src}/ver{df.ver_of(evid) if evid[:2] not in ('g:', 'o:', 'l:', 's:', 'b:') else evid.split(':')[-1]}"

    def corrupt(e):
        if e.get("kind") != "encode" or e["out"]["exc"] or not e.get("relax") or not e["relax"][0][0]:
            return None
        e["relax"][0][0][0] += 2          # one logged relaxation pass differs from the specification's
        return e

    df.negative_control(rep, files, "Trace_Encode", corrupt, ("M.relax",))

    def corrupt2(e):
        if e.get("kind") != "encode" or e["out"]["exc"] or not e["d"]["instrs"] or e["d"]["instrs"][0][5] < 0:
            return None
        e["d"]["instrs"][0][5] += 1        # the data claims another line than the code carries
        return e

    df.negative_control(rep, files, "Trace_Encode", corrupt2, ("P02.lines",))
    df.classify(rep, fails, PREFIX, PID, keyfn)
    rep.cov["model_agreement"]["note"] = "M.* = real encoder vs Encode.tla (units, tables, line table, header, every relaxation pass)"
