"""C14 - iteration enumerates every nested code object.

TLC enumerates nesting shapes (MC_Nesting.tla: every code constant referenced once, twice or not at
all, two levels deep); each is built as real nested code objects on 3.7-3.10; the real __iter__ /
all_code_data() of the decoded data are recorded for every code object of the shapes, of compiled
templates that make the compilers produce such tables, and of the corpus; Trace_Decode.tla (P14.*)
compares with the walk of co_consts that the specification computes from CPython's reading."""
from __future__ import annotations

import json

import decode_family as df
from common import SUPPORTED, Pool, Report, chunks, run_tlc, tla_unescape, tlc_prints, workdir

PID = "C14"
TEMPLATES = [
    ("dead-def-after-return", "def f():\n    return 1\n    def g():\n        return 2\n"),
    ("dead-lambda-after-raise", "def f():\n    raise E\n    h = lambda: 3\n"),
    ("if-false-body", "def f():\n    if 0:\n        def g(): pass\n    return 1\n"),
    ("same-lambda-twice", "f = [lambda: 0, lambda: 0]\n"),
    ("finally-def", "def f():\n    try:\n        a\n    finally:\n        def g(): return 1\n"),
    ("nested-3", "def a():\n    def b():\n        def c():\n            return lambda: 1\n        return c\n    return b\n"),
    ("class-methods", "class K:\n    def m(self): pass\n    def n(self): return [i for i in self]\n"),
    ("comprehensions", "x = [[j for j in i] for i in y]\n"),
    ("while-true-def", "def f():\n    while True:\n        return 1\n    def g(): pass\n"),
]


def run(tier: str, rep: Report):
    wd = workdir("c14")
    rep.assumptions += [
        "interpreters: pyenv 3.7.16, 3.8.18, 3.9.18, 3.10.13",
        "expected yield of __iter__ = one element per code object in the constant table (referenced or not), as a "
        "multiset; each yielded element must equal CodeData.from_code of that nested code object",
    ]
    cfg = wd / "MC_Nesting.cfg"
    mt, mc = (2, 2) if tier == "quick" else (3, 2)
    cfg.write_text(f"SPECIFICATION Spec\nCONSTANTS\n  MaxTop = {mt}\n  MaxChild = {mc}\n  Emit = TRUE\nINVARIANT IterModel\n")
    r = run_tlc("MC_Nesting", str(cfg), workers=8, timeout=1800, extra=["-continue"])
    r.errors = [e for e in r.errors if "behavior up to this point" not in e]
    rep.add_tlc(r, f"MC_Nesting[top<={mt},child<={mc}]")
    rep.cov["model_invariant_violations"] = len(r.violated)
    trees = [json.loads(tla_unescape(s)) for s in tlc_prints(r.out)]
    if not trees:
        rep.machinery_error(f"MC_Nesting emitted nothing: {r.out[-300:]}")
    cases = [{"id": f"n:{i}", "tree": t} for i, t in enumerate(trees)]
    extra = {v: [{"id": f"tpl:{n}", "src": s} for n, s in TEMPLATES] for v in SUPPORTED}
    pool = Pool(SUPPORTED, per_version=4)
    try:
        args = {v: [] for v in SUPPORTED}
        files = []
        k = 0
        for v in SUPPORTED:
            for ch in chunks(cases, 400):
                k += 1
                f = str(wd / f"nest-{v}-{k}.ndjson")
                files.append(f)
                args[v].append({"cases": [dict(c, id=c["id"] + ":" + v) for c in ch], "path": f})
        pool.map_all("decode.nests_to_file", args)
        files += df.collect_events(rep, tier, wd, pool, {}, extra_sources=extra)
    finally:
        pool.close()
    rep.cov["evaluations"] = len(cases) * 4 + rep.cov["recorded"]["events"]
    rep.cov["distinct_nontrivial"] = sum(1 for t in trees if any(e[0] != "once" for e in t) or any(e[1] for e in t))
    rep.cov["rule"] = ("cases = nesting trees of MC_Nesting (distinct states) x 4 interpreters + corpus/template code objects; "
                       "non-trivial = tree with an unreferenced or twice-referenced entry or with a second level")
    rep.cov["exhaustive"] = True
    rep.cov["explanation"] = f"all trees with <= {mt} code constants at the top, each with <= {mc} children, 3 reference modes each"
    rep.sample({"tree": trees[len(trees) // 2]})
    fails = df.validate(rep, files)

    def keyfn(evid, clauses):
        kind = evid.split(":")[0]
        return f"{PID}/{'+'.join(sorted(set(c.split('.', 1)[1] for c in clauses)))}/{kind}/ver{df.ver_of(evid) if kind != 'n' else evid.split(':')[2]}"

    def corrupt(e):
        if e["lib"].get("exc") or not e["lib"].get("iter"):
            return None
        e["lib"]["iter"] = e["lib"]["iter"][1:]
        return e

    df.negative_control(rep, files, "Trace_Decode", corrupt, ("P14.iter",))
    df.classify(rep, fails, ("P14.",), PID, keyfn)
