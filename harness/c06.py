"""C06 - normalization yields a canonical form, whatever the operation history.

* design level (TLC, MC_Decode.tla): CanonicalModel - Normalize(Decode(c)) is the canonical data of
  c's meaning (Normalize!Canon, a function of CPython's reading only, so artefact variants coincide);
  NormalizeModel - idempotent and stable under encode/decode;
* implementation level, corpus: the real normalize(from_code(c)) projected and compared by TLC with
  Canon of CPython's own reading of c (P06.canonical), idempotence, stability (Trace_Encode.tla);
* layout variants of real code objects built by an independent assembler (self-checked through dis):
  all must normalise to equal, hash-equal data encoding to the identical code object;
* every API history of Api.tla up to a length replayed on real objects; normalised objects must stay
  equal along every route (Trace_Api.tla, P06.stable)."""
from __future__ import annotations

from concurrent.futures import ThreadPoolExecutor

import api_family as af
import corpus
import decode_family as df
from common import NCPU, SUPPORTED, Pool, Report, chunks, run_tlc, seed, workdir

PID = "C06"


def run(tier: str, rep: Report):
    wd = workdir("c06")
    rep.assumptions += [
        "interpreters: pyenv 3.7.16, 3.8.18, 3.9.18, 3.10.13",
        "variants are produced by harness/wk/asm.py (independent of the library) and kept only if their meaning "
        "fingerprint (dis + PyCode_Addr2Line + header) equals the base's; constant slot 0 of functions, the parameter "
        "prefix of co_varnames and co_freevars are pinned (they are meaning, not artefact)",
    ]

    def mc(job):
        v, sc = job
        cfgd = wd / f"MC_Decode_canon_{v}_{sc}.cfg"
        cfgd.write_text(f"""SPECIFICATION Spec
CONSTANTS
  Ver = "{v}"
  MaxUnits = {3 if tier == "quick" else 4}
  MaxPrefix = 1
  Classes = {{"EXT", "JABS", "JREL", "NAME", "LOCAL", "FREE", "CONST", "NOARG", "RAW"}}
  ByteVals = {{0, 1, 2, 4}}
  Scope = "{sc}"
  Emit = FALSE
INVARIANT CanonicalModel
INVARIANT NormalizeModel
""")
        return v + "/" + sc, run_tlc("MC_Decode", str(cfgd), workers=max(2, NCPU // 4), timeout=3000, heap="6g")

    mjobs = [(v, "module") for v in SUPPORTED] + [(v, sc) for v in (SUPPORTED if tier == "thorough" else ["38", "310"])
                                                  for sc in ("fn", "fndoc")]
    with ThreadPoolExecutor(max_workers=4) as ex:
        for v, rr in ex.map(mc, mjobs):
            rep.add_tlc(rr, f"MC_Decode+CanonicalModel+NormalizeModel[{v}]")
            if rr.violated:
                rep.machinery_error(f"canonical-form invariants violated on the reference model [{v}]: {rr.violated[:2]}")
    # the API machine on VALUES of the reference model: tags decide equality along every history (MC_System)
    def mcs(v):
        cfgs = wd / f"MC_System_{v}.cfg"
        cfgs.write_text(f'SPECIFICATION Spec\nCONSTANTS\n  Ver = "{v}"\n  MaxLen = {4 if tier == "quick" else 5}\nINVARIANT NoRaise\nINVARIANT TagsDecide\n')
        return v, run_tlc("MC_System", str(cfgs), workers=4, timeout=3000, heap="6g")

    with ThreadPoolExecutor(max_workers=4) as ex:
        for v, rr in ex.map(mcs, SUPPORTED):
            rep.add_tlc(rr, f"MC_System[{v}]")
            if rr.violated:
                rep.machinery_error(f"MC_System[{v}]: the value algebra of Api.tla does not hold in the reference model: {rr.violated[:2]}")
    maxlen = 4 if tier == "quick" else 5
    hs = af.histories(rep, wd, maxlen)
    api_files = af.replay(rep, wd, hs, nbases=4 if tier == "quick" else None)
    pool = Pool(SUPPORTED, per_version=4)
    files = []
    var_files = []
    try:
        jobs = {v: [] for v in SUPPORTED}
        k = 0
        for v in SUPPORTED:
            nfiles = 40 if tier == "quick" else 400
            fs = corpus.sample_files(v, nfiles, "c06") + corpus.repo_examples()
            for ch in chunks(fs, 8):
                k += 1
                f = str(wd / f"corpus-{v}-{k}.ndjson")
                files.append(f)
                jobs[v].append(("encode.corpus_to_file", {"files": ch, "path": f, "optimize": 0}))
                k += 1
                f = str(wd / f"variants-{v}-{k}.ndjson")
                var_files.append(f)
                srcs = [{"id": f"sn:{i}", "src": s, "mode": m} for i, (m, s) in enumerate(df.SNIPPETS)] if ch is fs[:8] else None
                jobs[v].append(("api.variants_to_file", {"files": ch, "path": f, "nvariants": 3 if tier == "quick" else 6,
                                                         "seed": seed(), "sources": srcs}))
            k += 1
            f = str(wd / f"src-{v}-{k}.ndjson")
            files.append(f)
            ssrcs = [{"id": f"sn:{i}", "src": s, "mode": m} for i, (m, s) in enumerate(df.SNIPPETS)]
            ssrcs += [{"id": f"ex:{n}", "src": s} for n, s in df.REPO_EXAMPLES.items()]
            jobs[v].append(("encode.sources_to_file", {"sources": ssrcs, "path": f}))
            k += 1
            f = str(wd / f"variants-src-{v}-{k}.ndjson")
            var_files.append(f)
            srcs = [{"id": f"sn:{i}", "src": s, "mode": m} for i, (m, s) in enumerate(df.SNIPPETS)]
            srcs += [{"id": f"base:{b['id']}", "src": b["src"]} for b in af.bases_for(v)]
            jobs[v].append(("api.variants_to_file", {"files": [], "path": f, "nvariants": 8, "seed": seed(), "sources": srcs}))

        def runjobs(v):
            ws = pool.workers[v]

            def go(wi):
                return [ws[wi].req(jobs[v][j][0], **jobs[v][j][1]) for j in range(wi, len(jobs[v]), len(ws))]

            with ThreadPoolExecutor(max_workers=len(ws)) as ex2:
                return [x for xs in ex2.map(go, range(len(ws))) for x in xs]

        with ThreadPoolExecutor(max_workers=4) as ex:
            outs = list(ex.map(runjobs, SUPPORTED))
    finally:
        pool.close()
    sc = sum(x.get("selfcheck_failed", 0) for o in outs for x in o if isinstance(x, dict))
    nvar = sum(x.get("events", 0) for o in outs for x in o if isinstance(x, dict) and "selfcheck_failed" in x)
    nev = sum(x.get("events", 0) for o in outs for x in o if isinstance(x, dict) and "selfcheck_failed" not in x)
    rep.cov["variant_groups"] = nvar
    rep.cov["variants_discarded_by_selfcheck"] = sc
    if nvar and sc > nvar:
        rep.machinery_error(f"variant assembler self-check failed too often ({sc} of {nvar} groups)")
    rep.cov["evaluations"] = nev + nvar + rep.cov["histories_replayed"]
    rep.cov["distinct_nontrivial"] = nvar
    rep.cov["rule"] = ("cases = normalised-corpus events + variant groups + replayed histories; non-trivial = variant groups "
                       "(a compiled module with up to 3/6 random layout variants of its whole code tree)")
    rep.cov["explanation"] = (f"API histories: exhaustive to length {maxlen}; model: MC_Decode exhaustive per version")
    rep.sample({"history": hs[len(hs) // 3]})
    fails = df.validate(rep, files, "Trace_Encode") + df.validate(rep, var_files + api_files, "Trace_Api")

    def keyfn(evid, clauses):
        kind = evid.split(":")[0]
        return f"{PID}/{'+'.join(sorted(set(c.split('.', 1)[1] for c in clauses)))}/{kind}/ver{evid.split(':')[1] if kind in ('h', 'v', 'c') else df.ver_of(evid)}"

    def corrupt(e):
        if not e.get("has_c0") or not e["d"]["instrs"]:
            return None
        e["d"]["instrs"][0][4] = 3         # a normalised instruction that still carries an operand width
        return e

    df.negative_control(rep, files, "Trace_Encode", corrupt, ("P06.canonical",))

    def corrupt_h(e):
        if "steps" not in e or not any(st["eq"] for st in e["steps"]):
            return None
        for st in e["steps"]:
            st["eq"] = []
        return e

    df.negative_control(rep, api_files, "Trace_Api", corrupt_h, ("P06.", "P07.", "P01."))
    df.classify(rep, fails, ("P06.",), PID, keyfn)
