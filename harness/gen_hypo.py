"""Runs under /venv/bin/python (3.12, has hypothesmith): writes N generated programs (source text) as
JSON lines.  Deterministic for a given seed.  Used by the thorough tiers as an extra corpus: programs
are compiled (never executed) on each target interpreter if they compile there."""
import json
import sys
import warnings

import hypothesmith
from hypothesis import HealthCheck, Phase, given, seed, settings


def main(n, sd, out):
    progs = []

    @seed(sd)
    @settings(max_examples=n, database=None, deadline=None, derandomize=False, phases=[Phase.generate],
              suppress_health_check=list(HealthCheck))
    @given(hypothesmith.from_grammar())
    def collect(src):
        with warnings.catch_warnings():
            warnings.simplefilter("ignore")
            try:
                compile(src, "<hypo>", "exec")
            except Exception:
                return
        if 0 < len(src) < 4000:
            progs.append(src)

    collect()
    seen = set()
    with open(out, "w") as fh:
        for i, s in enumerate(progs):
            if s in seen:
                continue
            seen.add(s)
            fh.write(json.dumps({"id": "hypo:%d" % i, "src": s}) + "\n")
    print(len(seen))


if __name__ == "__main__":
    main(int(sys.argv[1]), int(sys.argv[2]), sys.argv[3])
