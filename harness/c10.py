"""C10 - line-table codec agrees with CPython for everything its assembler can emit.

1. TLC, MC_Lines.tla x {a38, a39, a310}: the assembler (+ <=3.9 peephole) as a state machine; the
   library's codec (Lines.tla) on every completed table; C10's clauses as invariants.
2. spec -> code: every completed state is replayed on the real library, on the real interpreters
   whose format it is, with CPython's own reading of a real code object carrying the table.
3. code -> spec: the tables of a corpus of really compiled code objects, through the library.
   Both 2 and 3 are recorded as events and validated by TLC against Trace_Lines.tla (environment
   binding, the property's clauses, and agreement of every stage with the specification).
4. assembler binding: programs built as ASTs with the model's line numbers are compiled by the
   real compilers and the emitted table is compared with the model's assembler.
"""
from __future__ import annotations

import json
import random
from concurrent.futures import ThreadPoolExecutor

import corpus
from common import (NCPU, SPEC, SUPPORTED, MachineryError, Pool, Report, chunks, run_tlc, seed, tla_unescape,
                    tlc_prints, workdir)

ASM_VERSIONS = {"a37": ["37"], "a38": ["38"], "a39": ["39"], "a310": ["310"]}

LV = {
    "LV_tiny": [0, 5, 132, 133, 260],
    "LV_quick": [0, 1, 5, 132, 133, 259, 260, 400],
    "LV_thorough": [-1, 0, 1, 5, 131, 132, 133, 134, 258, 259, 260, 261, 386, 400],
}
# bounded instances per tier: (name, MaxRuns, Sizes, LineVals)
INSTANCES = {
    "quick": [("r2", 2, [1, 2, 127, 128, 255, 256], "LV_quick"), ("r3", 3, [1, 2, 128], "LV_tiny")],
    "thorough": [("r2", 2, [1, 2, 127, 128, 129, 255, 256, 382, 383], "LV_thorough"),
                 ("r3", 3, [1, 2, 127, 128, 255, 256], "LV_quick")],
}
NOLINE = -99999
TLC_SAMPLE = {"quick": 12000, "thorough": 60000}


def model_cfg(asm: str, inst, wd) -> str:
    name, runs, sizes, lv = inst
    lvn = lv + ("_nl" if asm == "a310" else "")
    fn = f"MC_Lines_{asm}_{name}.cfg"
    txt = f"""SPECIFICATION Spec
CONSTANTS
  Asm = "{asm}"
  MaxRuns = {runs}
  Sizes = {{{", ".join(map(str, sizes))}}}
  LineVals <- {lvn}
  Removal = {"TRUE" if asm != "a310" else "FALSE"}
  Emit = TRUE
INVARIANT C10Model
"""
    (wd / fn).write_text(txt)
    return str(wd / fn)


def feature_key(table: list[int], lt: bool) -> str:
    """Discriminating features of a failing table (known-finding key)."""
    ents = [(table[i], table[i + 1] - 256 if table[i + 1] >= 128 else table[i + 1]) for i in range(0, len(table) - 1, 2)]
    feats = set()
    for (b0, l0), (b1, l1) in zip(ents, ents[1:]):
        if not lt and b1 == 0 and l1 != 0 and l0 in (127, -128):
            if (l0 > 0) != (l1 > 0):
                feats.add("limit-then-zero-width-opposite-sign")
            elif b0 == 0 or True:
                feats.add("limit-then-zero-width-same-sign")
        if not lt and b0 == 255 and l0 == 0 and b1 != 0:
            feats.add("255-filler")
    if any(b == 0 for b, _ in ents[1:]):
        feats.add("zero-width")
    return "+".join(sorted(feats)) or "plain"


def validate_traces(rep: Report, files: list[str], what: str, module: str = "Trace_Lines") -> list[dict]:
    """Run a trace specification over each ndjson shard in parallel; returns the failure records."""
    fails: list[dict] = []

    def one(f):
        n = sum(1 for _ in open(f))
        if n == 0:
            return None, 0, f
        r = run_tlc(module, module + ".cfg", workers=1, env={"TRACE_FILE": f}, heap="2g",
                    extra=[], timeout=3600)
        return r, n, f

    with ThreadPoolExecutor(max_workers=NCPU) as ex:
        for r, n, f in ex.map(one, files):
            if r is None:
                continue
            rep.cov["traces_validated_against_impl"] += n
            rep.cov["states"] += r.distinct
            rep.cov["transitions"] += r.generated
            if not r.ok or r.distinct != n + 1:
                rep.machinery_error(f"{module} {what} {f}: rc={r.rc} distinct={r.distinct} expected={n + 1} "
                                    f"{r.errors[:2]} {r.violated[:2]} :: {r.out[-800:]}")
            for s in tlc_prints(r.out):
                fails.append(json.loads(tla_unescape(s)))
    return fails


def run(tier: str, rep: Report):
    wd = workdir("c10")
    rep.assumptions += [
        "interpreters: pyenv 3.7.16, 3.8.18, 3.9.18, 3.10.13; code_data imported from the working tree",
        "environment model CPyLines.tla is compared with PyCode_Addr2Line on every replayed/recorded table and with "
        "the real compilers' tables on AST-built programs; a disagreement is a machinery error",
        "domain of 'tables the assembler can emit': image of the modelled assemblers over line programs of "
        "bounded length, plus (<=3.9) the peephole fix-up for any set of whole runs removed",
    ]
    # ---- 1. bounded models
    cases: dict[str, dict] = {}
    model_verdict: dict[str, tuple[bool, bool]] = {}
    progs: dict[str, tuple] = {}

    def mc(job):
        asm, inst = job
        cfg = model_cfg(asm, inst, wd)
        return asm, inst, run_tlc("MC_Lines", cfg, workers=max(2, NCPU // 4), timeout=6000, extra=["-continue"], heap="6g")

    mcjobs = [(asm, inst) for inst in INSTANCES[tier] for asm in ASM_VERSIONS]
    with ThreadPoolExecutor(max_workers=4) as ex:
        for asm, inst, r in ex.map(mc, mcjobs):
            r.errors = [e for e in r.errors if "behavior up to this point" not in e]
            rep.add_tlc(r, f"MC_Lines[{asm},{inst[0]}:runs={inst[1]},sizes={inst[2]},lines={inst[3]}]")
            n = 0
            for s in tlc_prints(r.out):
                a, prog, removed, table, ncode, rt, rd, inv, readers, sane = json.loads(tla_unescape(s))
                n += 1
                key = f"{a}:{ncode}:{bytes(table).hex()}"
                if key not in cases:
                    cases[key] = {"id": "g:" + key, "table": table, "ncode": ncode, "lt": a == "a310", "asm": a}
                    model_verdict["g:" + key] = (rt, rd)
                    if not (readers and sane):
                        rep.machinery_error(f"environment model inconsistent with itself on {key}: readers={readers} sane={sane}")
                    progs["g:" + key] = (prog, removed)
            rep.cov.setdefault("model_states_emitted", {})[asm + "/" + inst[0]] = n
            rep.cov.setdefault("model_invariant_violations", {})[asm + "/" + inst[0]] = len(r.violated)
            if n == 0:
                rep.machinery_error(f"MC_Lines[{asm}] emitted no completed state: {r.out[-600:]}")
    rep.cov["evaluations"] += len(cases)

    # ---- 2/3. replay generated tables + record corpus tables on the real interpreters
    pool = Pool(SUPPORTED, per_version=4)
    files = []
    try:
        jobs = {v: [] for v in SUPPORTED}
        per_ver_cases = {v: [] for v in SUPPORTED}
        rnd = random.Random(seed() + 1)
        allc = list(cases.values())
        # every generated table is replayed on the real library (direct verdict, compared with the
        # model's verdict); TLC trace validation gets every table the model flags plus a seeded sample
        frac = min(1.0, TLC_SAMPLE[tier] / max(1, len(allc)))
        for c in allc:
            flagged = model_verdict[c["id"]] != (True, True)
            c["tlc"] = flagged or rnd.random() < frac
            for v in ASM_VERSIONS[c["asm"]]:
                cc = {k: c[k] for k in ("table", "ncode", "lt", "tlc")}
                cc["id"] = c["id"] + ":" + v
                per_ver_cases[v].append(cc)
        rep.cov["generated_tables_replayed"] = len(allc)
        rep.cov["generated_tables_trace_validated"] = sum(1 for c in allc if c["tlc"])
        k = 0
        for v in SUPPORTED:
            for ch in chunks(per_ver_cases[v], 1500):
                k += 1
                f = str(wd / f"gen-{v}-{k}.ndjson")
                files.append(f)
                jobs[v].append(("lines.cases_to_file", {"cases": ch, "path": f}))
        nfiles = 150 if tier == "quick" else None
        corpus_files = {}
        for v in SUPPORTED:
            fs = corpus.sample_files(v, nfiles, "c10") + corpus.repo_examples()
            corpus_files[v] = fs
            for opt in ([0] if tier == "quick" else [0, 2]):
                for ch in chunks(fs, 40):
                    k += 1
                    f = str(wd / f"corpus-{v}-{k}.ndjson")
                    files.append(f)
                    jobs[v].append(("lines.corpus_to_file", {"files": ch, "path": f, "optimize": opt}))

        def runjobs(v):
            ws = pool.workers[v]

            def go(wi):
                out = []
                for j in range(wi, len(jobs[v]), len(ws)):
                    out.append(ws[wi].req(jobs[v][j][0], **jobs[v][j][1]))
                return out

            with ThreadPoolExecutor(max_workers=len(ws)) as ex2:
                return [x for xs in ex2.map(go, range(len(ws))) for x in xs]

        with ThreadPoolExecutor(max_workers=4) as ex:
            outs = list(ex.map(runjobs, SUPPORTED))
        direct = {}
        for o in outs:
            for x in o:
                if isinstance(x, list):
                    direct.update({i: ok for i, ok in x})
        big = [b for o in outs for x in o if isinstance(x, dict) for b in x.get("big", [])]
        rep.cov["corpus_files_not_compilable"] = sum(x.get("skipped", 0) for o in outs for x in o if isinstance(x, dict))
        rep.cov["tables_too_large_for_TLC_checked_directly"] = len(big)
        for b in big:
            if not b["ok"]:
                rep.violation("C10/direct/large-table", f"large table {b['id']} fails the direct comparison", b)

        # ---- 4. assembler binding (real compilers vs CPyLines assemblers)
        asm_files = asm_binding(rep, pool, progs, cases, tier, wd)
    finally:
        pool.close()

    fails = validate_traces(rep, files, "c10")
    rep.failing_ids = {f["id"] for f in fails}

    def corrupt(e):
        if not e.get("has_pub") or e.get("pub_exc") or not e.get("pub_lines"):
            return None
        e["pub_lines"][0] += 1
        return e

    import decode_family as df
    df.negative_control(rep, files, "Trace_Lines", corrupt, ("P.lines",))
    asm_fails = validate_traces(rep, asm_files, "asm-binding", "Trace_Asm")
    rep.cov["assembler_binding"]["mismatches"] = len(asm_fails)
    for af in asm_fails[:5]:
        rep.machinery_error(f"assembler model (CPyLines.tla) differs from the real compiler: {af}")

    # ---- verdicts
    nontrivial = set()
    for c in cases.values():
        fk = feature_key(c["table"], c["lt"])
        if fk != "plain" or len(c["table"]) > 2 * 3:
            nontrivial.add(c["id"])
    rep.cov["distinct_nontrivial"] = len(nontrivial)
    rep.cov["rule"] = ("cases = distinct (assembler, code length, table) triples emitted by MC_Lines plus one per corpus "
                       "code object; non-trivial = generated table with a zero-width entry, a split entry or more than 3 "
                       "entries")
    rep.cov["exhaustive"] = True
    rep.cov["explanation"] = ("MC_Lines exhaustive, per assembler, over the instances " +
                              "; ".join(f"{n}: <= {r} runs, sizes {sz}, lines {LV[lv]}" for n, r, sz, lv in INSTANCES[tier]) +
                              " (+no-line on 3.10), every subset of runs removed by the peephole on <=3.9")
    for i, c in enumerate(cases.values()):
        if i % max(1, len(cases) // 4) == 0:
            rep.sample({"model_state": {"asm": c["asm"], "prog": progs[c["id"]][0], "removed": progs[c["id"]][1],
                                        "table": c["table"], "ncode": c["ncode"]}})

    by_id: dict[str, list[str]] = {}
    for f in fails:
        by_id.setdefault(f["id"], []).extend(f["bad"])
    n_env = n_model = 0
    case_by_evid = {}
    for c in cases.values():
        for v in ASM_VERSIONS[c["asm"]]:
            case_by_evid[c["id"] + ":" + v] = c
    for evid, bad in sorted(by_id.items()):
        env = [b for b in bad if b.startswith("ENV.")]
        prop = [b for b in bad if b.startswith("P.")]
        mod = [b for b in bad if b.startswith("M.")]
        if any(b.startswith("S.") for b in bad):
            rep.cov["stage_inverse_failures_advisory"] = rep.cov.get("stage_inverse_failures_advisory", 0) + 1
        if env:
            n_env += 1
            rep.machinery_error(f"environment model disagrees with CPython on {evid}: {env}")
            continue
        if mod and not prop:
            n_model += 1
        if prop:
            c = case_by_evid.get(evid)
            table = c["table"] if c else None
            lt = c["lt"] if c else evid.split(":")[1] == "310"
            if table is None:
                table = _corpus_table(evid)
            fk = feature_key(table or [], lt)
            cl = sorted(set(p.split(".")[1] for p in prop))
            key = f"C10/{'+'.join(cl)}/{'linetable' if lt else 'lnotab'}/{fk}"
            rep.violation(key, f"line table {bytes(table or []).hex()} ({evid}): failing clauses {prop}",
                          {"event": evid, "table": table, "clauses": bad,
                           "prog": progs.get(c["id"]) if c else None})
    rep.cov["model_agreement"] = {"events_where_library_differs_from_Lines_tla_but_property_holds": n_model}
    # (drift of the reference model is reported in the evidence, it is not a verdict about /repo)
    # model-level verdict vs real verdict per generated table
    dis = 0
    for c in cases.values():
        rt, rd = model_verdict[c["id"]]
        for v in ASM_VERSIONS[c["asm"]]:
            evid = c["id"] + ":" + v
            real_ok = direct.get(evid)
            if real_ok is None:
                rep.machinery_error(f"no replay verdict for {evid}")
                break
            if c["tlc"] or not real_ok:
                tlc_ok = not any(b.startswith("P.") for b in by_id.get(evid, []))
                if tlc_ok != real_ok:
                    rep.machinery_error(f"{evid}: TLC's verdict on the recorded event ({tlc_ok}) differs from the direct one ({real_ok})")
            if real_ok != (rt and rd):
                dis += 1
    rep.cov["model_agreement"]["generated_tables_where_model_and_code_verdicts_differ"] = dis


def _corpus_table(evid: str):
    return None


# --------------------------------------------------------------------------- assembler binding


SIZES_R = [2, 3, 4, 126, 127, 128, 129, 130, 131, 254, 255, 256, 257, 258, 259, 382, 383, 510, 511, 512]
DELTAS_R = [-300, -255, -129, -128, -127, -2, -1, 0, 1, 2, 126, 127, 128, 129, 253, 254, 255, 256, 381, 382, 400]


def recipe_from_model(prog, removed, ncode_total) -> list[dict] | None:
    """Render a model line program as statements of `def f():`, when the compilers can produce it."""
    # removed must be a suffix of whole runs, introduced by a 2-unit `return` run
    off = 0
    starts = []
    for u, line in prog:
        starts.append(off)
        off += u
    rem = set(removed)
    dead_from = None
    for i, (u, line) in enumerate(prog):
        units = set(range(starts[i], starts[i] + u))
        if units & rem:
            if not units <= rem:
                return None
            if dead_from is None:
                dead_from = i
        elif dead_from is not None:
            return None
    stmts = []
    for i, (u, line) in enumerate(prog):
        if line < 0 or line == NOLINE:
            return None
        if dead_from is not None and i == dead_from - 1:
            if u != 2:
                return None
            stmts.append({"line": line, "n": 0, "ret": True})
        elif dead_from is None and i == len(prog) - 1:
            if u < 4:
                return None
            stmts.append({"line": line, "n": u - 2})
        else:
            if u < 2:
                return None
            stmts.append({"line": line, "n": u})
    if dead_from == 0:
        return None
    return stmts


def random_recipe(rnd: random.Random) -> list[dict]:
    k = rnd.randint(2, 6)
    line = rnd.choice([0, 0, 1, 5])
    stmts = []
    ret_at = rnd.choice([None, None] + list(range(k - 1)))
    for i in range(k):
        if i:
            line = max(0, line + rnd.choice(DELTAS_R))
        n = rnd.choice(SIZES_R) if rnd.random() < 0.5 else rnd.choice([2, 3, 4])
        st = {"line": line, "n": n}
        if ret_at == i:
            st["ret"] = True
            if rnd.random() < 0.3:
                st["n"] = 0
        stmts.append(st)
    return stmts


def asm_binding(rep: Report, pool: Pool, progs, cases, tier: str, wd) -> list[str]:
    rnd = random.Random(seed() + 10)
    recipes: dict[str, list[dict]] = {a: [] for a in ASM_VERSIONS}
    ids = sorted(progs)
    rnd.shuffle(ids)
    limit = 300 if tier == "quick" else 3000
    cnt = {a: 0 for a in ASM_VERSIONS}
    for id_ in ids:
        prog, removed = progs[id_]
        asm = id_.split(":")[1]
        if cnt[asm] >= limit:
            continue
        st = recipe_from_model(prog, removed, cases[id_[2:]]["ncode"])
        if st is None:
            continue
        recipes[asm].append({"id": "m" + id_, "stmts": st})
        cnt[asm] += 1
    nrand = 300 if tier == "quick" else 5000
    for asm in recipes:
        for i in range(nrand):
            recipes[asm].append({"id": f"r:{asm}:{i}", "stmts": random_recipe(rnd)})
    files = []
    args = {v: [] for v in SUPPORTED}
    k = 0
    for asm, rs in recipes.items():
        for v in ASM_VERSIONS[asm]:
            for ch in chunks(rs, 400):
                k += 1
                f = str(wd / f"asm-{v}-{k}.ndjson")
                files.append(f)
                args[v].append({"progs": ch, "path": f})
    res = pool.map_all("asmbind.programs_to_file", args)
    tot = sum(sum(x) for x in res.values())
    rep.cov["assembler_binding"] = {"programs_compiled": tot,
                                    "from_model_states": {a: cnt[a] for a in cnt}, "random_per_assembler": nrand}
    if tot == 0:
        rep.machinery_error("assembler binding compiled no program")
    return files
