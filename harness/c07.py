"""C07 - JSON form is strict, schema-valid and round-trips without loss.

TLC enumerates constant terms (MC_Json.tla) and checks the documented JSON form is injective up to
the library's constant key; every term is built as a real Python constant, placed at every position
of a hand-built CodeData (operand, additional arg, nested code; strings also as name, varname,
docstring, free/cell variable, filename, code name) and pushed through the real codec with a strict
json.dumps/loads cycle; decoded and normalised corpus data go the same way.  Documents are tagged
node by node with their real Python types; TLC (Trace_Json.tla) decides plainness, validity against
the PUBLISHED schema (with a validator written in TLA+ that is compared with the `jsonschema`
package on every document, including deliberately broken ones), equality, hash and identical code."""
from __future__ import annotations

import json
import subprocess
from concurrent.futures import ThreadPoolExecutor

import corpus
import decode_family as df
from common import HARNESS, NCPU, SUPPORTED, MachineryError, Pool, Report, chunks, run_tlc, tla_unescape, tlc_prints, workdir

PID = "C07"


def model_terms(rep: Report, wd, depth: int):
    cfg = wd / "MC_Json.cfg"
    cfg.write_text(f"SPECIFICATION Spec\nCONSTANTS\n  Depth = {depth}\n  Emit = TRUE\nINVARIANT JsonModel\n")
    r = run_tlc("MC_Json", str(cfg), workers=8, timeout=1800, extra=["-continue"])
    r.errors = [e for e in r.errors if "behavior up to this point" not in e]
    rep.add_tlc(r, f"MC_Json[depth={depth}]")
    rep.cov["model_invariant_violations"] = len(r.violated)
    terms = [json.loads(tla_unescape(s)) for s in tlc_prints(r.out)]
    if not terms:
        rep.machinery_error(f"MC_Json emitted nothing: {r.out[-400:]}")
    return [[f"{i}", t] for i, t in enumerate(terms)]


def model_shapes(rep: Report, wd):
    """the document shapes of MC_Doc: [[id, abstract CodeData]]"""
    cfg = wd / "MC_Doc.cfg"
    cfg.write_text("SPECIFICATION Spec\nCONSTANTS\n  Emit = TRUE\nINVARIANT DocModel\n")
    r = run_tlc("MC_Doc", str(cfg), workers=8, timeout=1800, extra=["-continue"])
    rep.add_tlc(r, "MC_Doc")
    if r.violated:
        rep.cov["model_invariant_violations"] = rep.cov.get("model_invariant_violations", 0) + len(r.violated)
    shapes = [json.loads(tla_unescape(s)) for s in tlc_prints(r.out)]
    if not shapes:
        rep.machinery_error(f"MC_Doc emitted nothing: {r.out[-400:]}")
    shapes.sort(key=lambda d: (d["focus"], d["ix"]))
    return [[d["focus"] + "-" + ".".join(map(str, d["ix"])), d["abs"]] for d in shapes]


def shape_jobs(shapes, wd, v, files, start):
    jobs = []
    k = start
    for ch in chunks(shapes, 120):
        k += 1
        f = str(wd / f"shapes-{v}-{k}.ndjson")
        files.append(f)
        jobs.append(("jsonw.shapes_to_file", {"shapes": ch, "path": f}))
    return jobs


def vt_pass(files):
    def one(f):
        p = subprocess.run(["python3-vt", str(HARNESS / "vt_schema.py"), f], capture_output=True, text=True)
        if p.returncode:
            raise MachineryError(f"jsonschema pass failed on {f}: {p.stderr[-400:]}")

    with ThreadPoolExecutor(max_workers=NCPU) as ex:
        list(ex.map(one, files))


def run(tier: str, rep: Report):
    wd = workdir("c07")
    rep.assumptions += [
        "interpreters: pyenv 3.7.16, 3.8.18, 3.9.18, 3.10.13; serialize/parse cycle = json.dumps(allow_nan=False), with and "
        "without ensure_ascii, then json.loads",
        "schema validity is decided by JsonCodec!Valid on the published JSON_SCHEMA and, independently, by the jsonschema "
        "package (Draft 7) in the tooling venv; the two must agree on every document (else exit 2)",
        "'identical code' along the JSON route identifies all NaNs, as the property says",
    ]
    terms = model_terms(rep, wd, 1 if tier == "quick" else 2)
    shapes = model_shapes(rep, wd)
    if tier == "quick":
        # every instruction shape, every 3rd of the others (C12 and C15 replay them too)
        shapes = [s for i, s in enumerate(shapes) if s[0].startswith("instr") or i % 3 == 0]
    rep.cov["document_shapes"] = len(shapes)
    pool = Pool(SUPPORTED, per_version=4)
    files = []
    try:
        jobs = {v: [] for v in SUPPORTED}
        k = 0
        for v in SUPPORTED:
            jobs[v] += shape_jobs(shapes, wd, v, files, 100000)
            # integers by digit count: 2**53 has 16 digits; str()/int() refuse more than 4300 digits; then every 500
            lens = [15, 16, 17, 18, 100, 4299, 4300, 4301, 4302] + [m * 500 + d for m in range(9, 27 if tier == "quick" else 61) for d in (-1, 0, 1)]
            for ci, ch in enumerate(chunks(lens, 12)):
                f = str(wd / f"bigint-{v}-{ci}.ndjson")
                files.append(f)
                jobs[v].append(("jsonw.bigints_to_file", {"lengths": ch, "path": f}))
            for ch in chunks(terms, 60):
                k += 1
                f = str(wd / f"terms-{v}-{k}.ndjson")
                files.append(f)
                jobs[v].append(("jsonw.terms_to_file", {"terms": ch, "path": f}))
            nfiles = 30 if tier == "quick" else 300
            fs = corpus.sample_files(v, nfiles, "c07") + corpus.repo_examples()
            for ch in chunks(fs, 6):
                k += 1
                f = str(wd / f"corpus-{v}-{k}.ndjson")
                files.append(f)
                jobs[v].append(("jsonw.corpus_to_file", {"files": ch, "path": f}))
            k += 1
            f = str(wd / f"src-{v}-{k}.ndjson")
            files.append(f)
            srcs = [{"id": f"sn:{i}", "src": s, "mode": m} for i, (m, s) in enumerate(df.SNIPPETS)]
            srcs += [{"id": f"ex:{n}", "src": s} for n, s in df.REPO_EXAMPLES.items()]
            jobs[v].append(("jsonw.corpus_to_file", {"files": [], "path": f, "sources": srcs}))

        def runjobs(v):
            ws = pool.workers[v]

            def go(wi):
                return [ws[wi].req(jobs[v][j][0], **jobs[v][j][1]) for j in range(wi, len(jobs[v]), len(ws))]

            with ThreadPoolExecutor(max_workers=len(ws)) as ex2:
                return [x for xs in ex2.map(go, range(len(ws))) for x in xs]

        with ThreadPoolExecutor(max_workers=4) as ex:
            outs = list(ex.map(runjobs, SUPPORTED))
    finally:
        pool.close()
    vt_pass(files)
    nev = sum((x if isinstance(x, int) else x[0] if isinstance(x, list) else x.get("events", 0)) for o in outs for x in o)
    rep.cov["document_shapes_decodable"] = sum(x[1] for o in outs for x in o if isinstance(x, list))
    rep.cov["evaluations"] = nev
    rep.cov["distinct_nontrivial"] = sum(1 for _, t in terms if t[0] != "atom")
    rep.cov["rule"] = ("cases = (interpreter, term, position) and (interpreter, corpus code object, decoded|normalised) documents; "
                       "non-trivial (counted per term) = composite constant (tuple, frozenset, complex)")
    rep.cov["exhaustive"] = True
    rep.cov["explanation"] = (f"MC_Json: all {len(terms)} terms over 26 atoms (signed zeros, two NaN objects, infinities, ints "
                              "around 2^53 and 2^64, lone-surrogate / non-BMP / empty strings, bytes, None, Ellipsis), complex with "
                              f"special components, tuples and frozensets up to depth {1 if tier == 'quick' else 2}; every term "
                              "at 3 constant positions, every string atom at 7 more positions")
    rep.sample({"term": terms[len(terms) // 2][1]})
    # the first line of each file is the schema (consumed by the initial state)
    fails = df.validate(rep, files, "Trace_Json", expect_delta=0)

    def keyfn(evid, clauses):
        parts = evid.split(":")
        where = parts[3] if parts[0] == "t" and len(parts) > 3 else parts[-1]
        return f"{PID}/{'+'.join(sorted(set(c.split('.', 1)[1] for c in clauses)))}/{parts[0]}/{where}"

    def corrupt(e):
        if e.get("kind") != "doc" or e.get("broken") or e.get("to_exc") or e["tree"][0] != "o" or e.get("has_abs"):
            return None
        e["tree"][1].append(["leak", ["x", "tuple"]])      # a non-JSON value inside the document
        return e

    df.negative_control(rep, files, "Trace_Json", corrupt, ("P07.plain",), keep_first_line=True)
    df.classify(rep, fails, ("P07.",), PID, keyfn)


