"""C09 - decoded data carries no redundant override information.

P09.justified: every position override that sits on an entry at its natural first-use rank must be
needed (the worker strips it from all uses on the real library, re-encodes and compares);
P09.additional: the additional arguments are exactly the unreferenced entries (ranks and the
referenced set are computed by the specification from CPython's own reading of the code)."""
from __future__ import annotations

import c02
import decode_family as df
from common import Report

PID = "C09"


def keyfn(evid, clauses):
    kind = evid.split(":")[0]
    return f"{PID}/{'+'.join(sorted(c.split('.')[1] for c in clauses))}/{'synthetic' if kind == 'g' else 'compiled'}/ver{df.ver_of(evid)}"


def run(tier: str, rep: Report):
    c02.run(tier, rep, prefix=("P09.",), pid=PID, keyf=keyfn)
    rep.assumptions.append("removal experiments are run by the worker on the real library for at most 12 overridden "
                           "entries per code object that sit at their natural rank; others are not judged")
