"""Minimal stand-in for typing_extensions (harness side only; /repo is not touched).

code_data needs nothing but `Literal`.  The worker bootstrap puts this directory on
sys.path only when the real package cannot be imported.
"""
try:
    from typing import Literal  # Python >= 3.8
except ImportError:  # Python 3.7

    class _Literal(object):
        def __getitem__(self, item):
            return object

    Literal = _Literal()
