"""C11 - flags convert without loss and nothing unrepresentable is silently dropped.

TLC enumerates (MC_Flags.tla) all 2^18 words over the flags CPython defines, every unknown bit, and
hand-altered headers of the scopes the compilers produce; every state is replayed on the real
to_flags_data/from_flags_data and, for headers, through CodeType(...), from_code and to_code on
3.7-3.10; the recorded outcomes are validated by Trace_Flags.tla."""
from __future__ import annotations

import json
from concurrent.futures import ThreadPoolExecutor

import decode_family as df
from common import NCPU, SUPPORTED, Pool, Report, chunks, run_tlc, tla_unescape, tlc_prints, workdir

PID = "C11"


def run(tier: str, rep: Report):
    wd = workdir("c11")
    rep.assumptions += [
        "interpreters: pyenv 3.7.16, 3.8.18, 3.9.18, 3.10.13; the flag table of Versions.tla is compared with each "
        "interpreter's dis.COMPILER_FLAG_NAMES / __future__ on every event",
        "a header CPython's CodeType constructor refuses is outside the quantifier (the model's CtorAccepts is compared "
        "with the real constructor on every altered header)",
    ]
    words = {}
    headers = {}

    def mc(job):
        v, mode = job
        # 3.7 and 3.8: converting a flag word costs time proportional to the number of distinct words the process has
        # seen (IntFlag pseudo-members): all 2^18 words only where that is not so
        wb = "mixed" if v == "37" else ("all" if v == "310" or (tier == "thorough" and v == "39") else "compiler")
        cfg = wd / f"MC_Flags_{v}_{mode}.cfg"
        cfg.write_text(f'SPECIFICATION Spec\nCONSTANTS\n  Ver = "{v}"\n  Mode = "{mode}"\n  '
                       f'WordBits = "{wb}"\n  Emit = TRUE\nINVARIANT C11Model\n')
        return v, mode, run_tlc("MC_Flags", str(cfg), workers=4, extra=["-continue"], timeout=1800, heap="4g")

    with ThreadPoolExecutor(max_workers=4) as ex:
        for v, mode, r in ex.map(mc, [(v, m) for v in SUPPORTED for m in ("words", "headers")]):
            r.errors = [e for e in r.errors if "behavior up to this point" not in e]
            rep.add_tlc(r, f"MC_Flags[{v},{mode}]")
            rep.cov.setdefault("model_invariant_violations", {})[f"{v}/{mode}"] = len(r.violated)
            vals = [json.loads(tla_unescape(s)) for s in tlc_prints(r.out)]
            if mode == "words":
                # negative words (marker 99 = sign, see wk/flags.py): never representable, must raise
                words[v] = vals + [[99], [99, 6], [99, 0, 1, 6], [99, 2, 3, 5], [99] + list(range(0, 10))]
            else:
                headers[v] = vals
            if not vals:
                rep.machinery_error(f"MC_Flags[{v},{mode}] emitted nothing: {r.out[-400:]}")
    pool = Pool(SUPPORTED, per_version=4)
    files = []
    try:
        args_w = {}
        args_h = {}
        k = 0
        for v in SUPPORTED:
            args_w[v] = []
            for ch in chunks(words[v], 20000):
                k += 1
                f = str(wd / f"words-{v}-{k}.ndjson")
                files.append(f)
                args_w[v].append({"words": ch, "path": f, "id_prefix": f"w{k}"})
            args_h[v] = []
            hs = [dict(h, n=i) for i, h in enumerate(headers[v])]
            for ch in chunks(hs, 4000):
                k += 1
                f = str(wd / f"headers-{v}-{k}.ndjson")
                files.append(f)
                args_h[v].append({"cases": ch, "path": f})
        pool.map_all("flags.words_to_file", args_w)
        pool.map_all("flags.headers_to_file", args_h)
    finally:
        pool.close()
    nw = sum(len(x) for x in words.values())
    nh = sum(len(x) for x in headers.values())
    rep.cov["evaluations"] = nw + nh
    rep.cov["distinct_nontrivial"] = sum(1 for v in words for w in words[v] if len(w) >= 2) + nh
    rep.cov["rule"] = ("cases = (version, flag word) and (version, base scope, alteration) states of MC_Flags, all distinct; "
                       "non-trivial = word with >= 2 bits set, or any altered header the constructor accepts")
    rep.cov["exhaustive"] = True
    rep.cov["explanation"] = ("words: every subset of the 18 defined flag bits (3.10 in quick, 3.9-3.10 in "
                              "thorough; the 10 compiler flags otherwise; on 3.7 compiler subsets + __future__ subsets + all "
                              "known subsets of size <= 3, because its enum module makes from_flags_data quadratic) + every single unknown bit + every known "
                              "subset of size <= 1 joined with every unknown bit; headers: 9 base scopes x (flips of <= 2 "
                              "of the 11 used bits, unknown bit 11/30, argcount/kwonly -1/0/+1, posonly 0/+1)")
    rep.sample({"flag_word_bits": words["38"][len(words["38"]) // 2]})
    rep.sample({"altered_header": headers["38"][len(headers["38"]) // 2]})
    fails = df.validate(rep, files, "Trace_Flags")

    def keyfn(evid, clauses):
        kind = evid.split(":")[0]
        return f"{PID}/{'+'.join(sorted(c.split('.')[1] for c in clauses))}/{'word' if kind.startswith('w') else 'header'}/ver{evid.split(':')[1]}"

    def corrupt(e):
        if e.get("kind") != "word" or e["exc"] or not e["back"]:
            return None
        e["back"] = e["back"][1:]
        return e

    df.negative_control(rep, [f for f in files if "words-" in f], "Trace_Flags", corrupt, ("P11.lossless",))
    df.classify(rep, fails, ("P11.",), PID, keyfn)
