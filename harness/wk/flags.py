"""Worker commands for C11: flag words and hand-altered headers."""
import json
import sys

from . import cpy
from .decode import flag_bits, flag_table

V = sys.version_info[:2]
VER = "%d%d" % V


def _dump(evs, path):
    with open(path, "w") as fh:
        for e in evs:
            fh.write(json.dumps(e, separators=(",", ":")) + "\n")


SIGN = 99   # marker in a bit list: the word is negative


def words_to_file(words, path, id_prefix="w"):
    """words: list of bit-index lists"""
    from code_data._flags_data import from_flags_data, to_flags_data

    table = sorted([n, b] for n, b in flag_table().items())
    evs = [{"id": "%s:%s:table" % (id_prefix, VER), "kind": "table", "ver": VER, "table": table}]
    for i, bits in enumerate(words):
        w = 0
        for b in bits:
            if b != SIGN:
                w |= 1 << b
        if SIGN in bits:
            w |= -(1 << 31)          # a NEGATIVE word (3.7 builds code objects with negative co_flags): every bit >= 31 set
        e = {"id": "%s:%s:%d" % (id_prefix, VER, i), "kind": "word", "ver": VER, "bits": bits,
             "names": [], "exc": "", "back": [], "exc2": ""}
        try:
            names = to_flags_data(w)
            e["names"] = sorted(names)
            try:
                e["back"] = flag_bits(from_flags_data(set(names)))
            except Exception as ex:
                e["exc2"] = type(ex).__name__
        except Exception as ex:
            e["exc"] = type(ex).__name__
        evs.append(e)
    _dump(evs, path)
    return len(evs)


BASE_SRC = {
    "module": ("x = 1\n", None),
    "class": ("class A:\n    def m(self): return __class__\n", "A"),
    "def0": ("def f():\n    x = 1\n    y = 2\n", "f"),
    "def_a_va_k_vk": ("def f(a, *b, k, **kw):\n    l = 1\n", "f"),
    "def_po": ("def f(p, /, a):\n    l = 1\n" if V >= (3, 8) else "def f(p, a):\n    l = 1\n", "f"),
    "gen": ("def f(a):\n    yield a\n", "f"),
    "coro": ("async def f():\n    l = 1\n", "f"),
    "asyncgen": ("async def f():\n    l = 1\n    yield l\n", "f"),
    "closure": ("def o():\n    x = 1\n    def f(a): return a + x\n", "f"),
}
_bases = {}


def base_code(name):
    if name not in _bases:
        src, target = BASE_SRC[name]
        code = compile(src, "<hdr>", "exec")
        if target is not None:
            code = [c for p, c in cpy.all_codes(code) if c.co_name == target][0]
        _bases[name] = code
    return _bases[name]


def header_of(code):
    return {
        "flags": flag_bits(code.co_flags), "argcount": code.co_argcount,
        "posonly": code.co_posonlyargcount if V >= (3, 8) else 0, "kwonly": code.co_kwonlyargcount,
        "nvar": len(code.co_varnames), "free": bool(code.co_freevars or code.co_cellvars),
    }


HDR_FIELDS = ["co_flags", "co_argcount", "co_kwonlyargcount", "co_nlocals", "co_varnames", "co_freevars", "co_cellvars",
              "co_name", "co_filename", "co_firstlineno", "co_stacksize"] + (["co_posonlyargcount"] if V >= (3, 8) else [])


def headers_to_file(cases, path):
    from code_data import CodeData

    evs = []
    for i, c in enumerate(cases):
        base = base_code(c["base"])
        e = {"id": "h:%s:%s:%d" % (VER, c["base"], c.get("n", i)), "kind": "header", "ver": VER, "base": c["base"],
             "base_hdr": header_of(base), "want": {k: c[k] for k in ("flags", "argcount", "posonly", "kwonly")},
             "ctor_ok": False, "got": header_of(base), "from_exc": "", "to_exc": "", "diff": [], "model_raises": c.get("raises", False)}
        w = 0
        for b in c["flags"]:
            w |= 1 << b
        kw = dict(co_flags=w, co_argcount=c["argcount"], co_kwonlyargcount=c["kwonly"])
        if V >= (3, 8):
            kw["co_posonlyargcount"] = c["posonly"]
        elif c["posonly"]:
            evs.append(e)
            continue
        try:
            alt = cpy.code_replace(base, **kw)
        except Exception as ex:
            e["ctor_exc"] = "%s: %s" % (type(ex).__name__, ex)
            evs.append(e)
            continue
        e["ctor_ok"] = True
        e["got"] = header_of(alt)
        try:
            d = CodeData.from_code(alt)
        except BaseException as ex:  # noqa
            e["from_exc"] = type(ex).__name__
            evs.append(e)
            continue
        try:
            back = d.to_code()
        except BaseException as ex:  # noqa
            e["to_exc"] = type(ex).__name__
            evs.append(e)
            continue
        e["diff"] = [f for f in HDR_FIELDS if getattr(alt, f) != getattr(back, f)]
        evs.append(e)
    _dump(evs, path)
    return len(evs)
