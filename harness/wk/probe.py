def import_ok():
    import code_data  # noqa: F401
    from code_data import _blocks, _line_mapping, _json_data, _normalize  # noqa: F401

    return True
