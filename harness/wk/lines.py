"""Worker commands for the line-table codec (C10)."""
import sys

from . import cpy
from .cpy import ABSENT, LT, NONE


def _n(x):
    return NONE if x is None else x


def stages(table, ncode, lt):
    """Run the library's six stage functions on `table` (list of byte values) with an explicit
    is_linetable flag.  Returns the TLC-friendly projection of every intermediate value."""
    from code_data import _line_mapping as lm

    r = {"table": list(table), "ncode": ncode, "lt": bool(lt)}
    try:
        items = lm.bytes_to_items(bytes(table))
        r["items"] = [[i.bytecode_offset, i.line_offset] for i in items]
        r["bytes1"] = list(lm.items_to_bytes(items))
        coll = lm.collapse_items(items, lt)
        r["collapsed"] = [[i.bytecode_offset, _n(i.line_offset)] for i in coll]
        m = lm.items_to_mapping(coll, 2 * ncode, lt)
        keys = list(m.offset_to_line.keys())
        r["keys_regular"] = keys == list(range(0, 2 * len(keys), 2))
        r["lines"] = [_n(m.offset_to_line[k]) for k in keys]
        r["addl"] = [list(m.offset_to_additional_line_offsets.get(k, [])) for k in keys]
        r["addl_stray"] = sorted(set(m.offset_to_additional_line_offsets) - set(keys))
        coll2 = lm.mapping_to_items(m, lt)
        r["collapsed2"] = [[i.bytecode_offset, _n(i.line_offset)] for i in coll2]
        exp2 = lm.expand_items(coll2, lt)
        r["expanded2"] = [[i.bytecode_offset, i.line_offset] for i in exp2]
        r["bytes2"] = list(lm.items_to_bytes(exp2))
        # expand(collapse(items)) on its own, for the stage-inverse clause
        exp1 = lm.expand_items(lm.collapse_items(items, lt), lt)
        r["expanded1"] = [[i.bytecode_offset, i.line_offset] for i in exp1]
        r["exc"] = ""
    except Exception as e:  # the library failed on this table
        r["exc"] = "%s: %s" % (type(e).__name__, e)
    return r


def public(table, ncode, first=1):
    """to_line_mapping / from_line_mapping on a real code object of this interpreter carrying
    `table`, plus CPython's own reading of the same object."""
    from code_data import _line_mapping as lm

    code = cpy.blank_code(ncode, table, first)
    r = {"ver": "%d%d" % sys.version_info[:2]}
    r["cpy"] = [_n(cpy.addr2line(code, 2 * k)) for k in range(ncode)]
    r["cpy"] = [x if x == NONE else x - first for x in r["cpy"]]
    try:
        m = lm.to_line_mapping(code)
        r["pub_lines"] = [_n(m.offset_to_line.get(2 * k, ABSENT)) for k in range(ncode)]
        r["pub_nkeys"] = len(m.offset_to_line)
        r["pub_bytes2"] = list(lm.from_line_mapping(m))
        r["pub_exc"] = ""
    except Exception as e:
        r["pub_exc"] = "%s: %s" % (type(e).__name__, e)
    return r


def table_case(table, ncode, lt, first=1):
    r = stages(table, ncode, lt)
    if bool(lt) == LT:
        r.update(public(table, ncode, first))
    return r


def table_cases(cases):
    return [table_case(**c) for c in cases]


def compile_table(src, mode="exec", fn=None):
    """Environment binding: compile source text, return the table(s) the compiler wrote."""
    code = compile(src, "<verif>", mode)
    out = []
    for path, c in cpy.all_codes(code):
        out.append(
            {"path": path, "name": c.co_name, "table": list(cpy.linetable_of(c)), "ncode": len(c.co_code) // 2,
             "first": c.co_firstlineno}
        )
    return out


def _dump(events, path):
    import json

    with open(path, "w") as f:
        for e in events:
            f.write(json.dumps(e, separators=(",", ":")))
            f.write("\n")


_DEFAULTS = dict(
    items=[], bytes1=[], collapsed=[], lines=[], addl=[], collapsed2=[], expanded2=[], bytes2=[], expanded1=[],
    keys_regular=True, addl_stray=[], has_pub=False, cpy=[], pub_lines=[], pub_bytes2=[], pub_exc="", pub_nkeys=0,
)


def _event(id_, r):
    e = dict(_DEFAULTS)
    e.update(r)
    e["has_pub"] = "cpy" in r
    e["id"] = id_
    return e


def cases_to_file(cases, path):
    """cases: [{id, table, ncode, lt, tlc}] -> ndjson events at path for the cases with tlc=True;
    returns the direct (Python-side) verdict of every case: [[id, ok], ...]"""
    evs = []
    verdicts = []
    for c in cases:
        ev = _event(c["id"], table_case(c["table"], c["ncode"], c["lt"], c.get("first", 1)))
        ok = direct_verdict(ev)
        verdicts.append([c["id"], ok])
        if c.get("tlc", True) or not ok:
            evs.append(ev)
    _dump(evs, path)
    return verdicts


def direct_verdict(ev):
    """the property's two clauses evaluated in Python (used only for tables too large for TLC)"""
    if ev["exc"] or ev.get("pub_exc"):
        return False
    if ev["has_pub"] and not (ev["pub_lines"] == ev["cpy"] and ev["pub_bytes2"] == ev["table"]):
        return False
    return ev["bytes2"] == ev["table"]


def corpus_to_file(files, path, optimize=0, max_units=20000, max_entries=4000):
    """every code object of every file: its real table through the library"""
    evs = []
    big = []
    skipped = 0
    ver = "%d%d" % sys.version_info[:2]
    for fn in files:
        try:
            with open(fn, "rb") as f:
                src = f.read()
            code = compile(src, fn, "exec", dont_inherit=True, optimize=optimize)
        except Exception:
            skipped += 1
            continue
        for p, c in cpy.all_codes(code):
            n = len(c.co_code) // 2
            id_ = "c:%s:o%d:%s:%s" % (ver, optimize, fn, p)
            tab = list(cpy.linetable_of(c))
            ev = _event(id_, table_case(tab, n, LT, c.co_firstlineno))
            if n > max_units or len(tab) // 2 > max_entries:
                big.append({"id": id_, "ok": direct_verdict(ev), "ncode": n, "entries": len(tab) // 2})
                continue
            evs.append(ev)
    _dump(evs, path)
    return {"events": len(evs), "skipped": skipped, "big": big}
