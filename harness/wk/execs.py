"""C05, behavioural part: run a program's original and normalised code objects and record what
can be observed: traced line events, return values, printed output, exceptions."""
import io
import json
import re
import sys

from . import cpy

_ADDR = re.compile(r"0x[0-9a-fA-F]+")


def _r(x, n):
    """repr without memory addresses (they differ between any two runs)"""
    return _ADDR.sub("0x?", repr(x))[:n]


V = sys.version_info[:2]
VER = "%d%d" % V


class _Budget(BaseException):
    """the traced program used up its event budget or its CPU-time guard (it does not terminate)"""


def well_formed(code):
    """every jump of every nested code object lands on the first unit of an instruction and every operand is inside
    its table (dis can list it): code that fails this is not executed (it could crash the interpreter)"""
    import dis
    import types

    try:
        for _, c in cpy.all_codes(code):
            starts = set()
            st = None
            ins = list(dis.get_instructions(c))
            for i in ins:
                if st is None:
                    st = i.offset
                if i.opcode != dis.EXTENDED_ARG:
                    starts.add(st)
                    st = None
            for i in ins:
                if i.opcode in dis.hasjabs or i.opcode in dis.hasjrel:
                    if i.argval not in starts:
                        return "jump to offset %d, which is not the start of an instruction, in %s" % (i.argval, c.co_name)
    except BaseException as ex:  # noqa
        return "unreadable: %s" % type(ex).__name__
    return ""


def observe(code, calls, max_events=5000):
    """exec module code in a fresh namespace, then call f(*args) for every args in calls"""
    import signal

    events = []
    out = io.StringIO()

    def alarm(signum, frame):
        raise _Budget("cpu time")

    def tracer(frame, event, arg):
        if frame.f_code.co_filename != "<prog>":
            return None
        if len(events) >= max_events:
            events.append(["BUDGET"])
            raise _Budget("events")
        if event == "line":
            events.append(["L", frame.f_code.co_name, frame.f_lineno])
        elif event == "return":
            events.append(["R", frame.f_code.co_name, _r(arg, 80)])
        elif event == "exception":
            events.append(["X", frame.f_code.co_name, arg[0].__name__])
        elif event == "call":
            events.append(["C", frame.f_code.co_name, frame.f_lineno])
        return tracer

    results = []
    ns = {"__name__": "prog"}
    old_out = sys.stdout
    sys.stdout = out
    old_alarm = signal.signal(signal.SIGVTALRM, alarm)
    signal.setitimer(signal.ITIMER_VIRTUAL, 30)
    sys.settrace(tracer)
    try:
        try:
            exec(code, ns)
            results.append(["module", "ok"])
        except _Budget:
            raise
        except BaseException as e:  # noqa
            results.append(["module", "exc", type(e).__name__, _ADDR.sub("0x?", str(e))[:100]])
        f = ns.get("f")
        if f is not None:
            for args in calls:
                try:
                    r = f(*args)
                    if hasattr(r, "__next__"):
                        r = list(r)
                    results.append(["call", _r(r, 300)])
                except _Budget:
                    raise
                except BaseException as e:  # noqa
                    results.append(["call", "exc", type(e).__name__, _ADDR.sub("0x?", str(e))[:100]])
    except _Budget:
        results.append(["budget"])
    finally:
        sys.settrace(None)
        signal.setitimer(signal.ITIMER_VIRTUAL, 0)
        signal.signal(signal.SIGVTALRM, old_alarm)
        sys.stdout = old_out
    return {"events": events, "results": results, "out": out.getvalue()[:2000]}


def programs_to_file(programs, path, calls=((1, 2), (2, 0), (3, 3))):
    """programs: [{id, src}]"""
    from code_data import CodeData

    evs = []
    bad = []
    for p in programs:
        try:
            code = compile(p["src"], "<prog>", "exec", dont_inherit=True)
        except Exception as e:
            bad.append([p["id"], "%s: %s" % (type(e).__name__, e)])
            continue
        e = {"id": "%s:%s" % (p["id"], VER), "ver": VER, "kind": "exec", "norm_exc": ""}
        o1 = observe(code, calls)
        try:
            code2 = CodeData.from_code(code).normalize().to_code()
        except BaseException as ex:  # noqa
            e["norm_exc"] = "%s: %s" % (type(ex).__name__, ex)
            code2 = None
        if code2 is not None:
            bad2 = well_formed(code2)
            if bad2 and not well_formed(code):
                e["norm_exc"] = "not executed: " + bad2
                code2 = None
        o2 = observe(code2, calls) if code2 is not None else {"events": [], "results": [], "out": ""}
        e["a"] = o1
        e["b"] = o2
        e["nevents"] = len(o1["events"])
        evs.append(e)
    with open(path, "w") as fh:
        for e in evs:
            fh.write(json.dumps(e, separators=(",", ":")) + "\n")
    return {"events": len(evs), "uncompilable": bad}
