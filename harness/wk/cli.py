"""Worker command for C16: what the API returns for a program given the way the CLI obtains it."""
import importlib.util
import json
import sys
from os import linesep


def expected(kind, value, modpath=None, filename=None):
    from code_data import CodeData

    from .api import canon_json

    if kind == "c":
        code = compile(value.replace("\\n", "\n"), "<string>", "exec")
    elif kind == "e":
        code = compile(eval(value, {"linesep": linesep}), "<string>", "exec")
    elif kind == "file":
        with open(value) as f:
            code = compile(f.read(), filename or str(value), "exec")
    elif kind == "m":
        sys.path.insert(0, modpath)
        try:
            spec = importlib.util.find_spec(value)
            code = spec.loader.get_code(value)
        finally:
            sys.path.remove(modpath)
            sys.modules.pop(value, None)
    else:
        raise ValueError(kind)
    raw = CodeData.from_code(code)
    norm = raw.normalize()
    return {
        "raw_repr": repr(raw), "norm_repr": repr(norm),
        "raw_json": json.dumps(canon_json(raw.to_json_data()), sort_keys=True, allow_nan=False),
        "norm_json": json.dumps(canon_json(norm.to_json_data()), sort_keys=True, allow_nan=False),
    }
