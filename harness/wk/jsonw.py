"""Worker commands for C07 / C08 / C15: the JSON codec on real CodeData."""
import base64
import copy
import json
import sys
import types

from . import cpy

V = sys.version_info[:2]
VER = "%d%d" % V

NAN2 = float("inf") - float("inf")  # a second NaN object (sign bit set on most platforms)

ATOM_VALUES = {
    "i0": 0, "i1": 1, "im1": -1, "ibig": 2 ** 53 - 1, "ibig1": 2 ** 53, "inbig1": -(2 ** 53), "ihuge": 2 ** 64,
    # beyond the interpreters' int <-> str digit limit (4300 digits): only a hex literal can write them
    "ivast": 16 ** 4000 - 1, "invast": -(10 ** 5000) - 7,
    "true": True, "false": False,
    "f0": 0.0, "fm0": -0.0, "f1": 1.0, "f15": 1.5, "nan": float("nan"), "nan2": NAN2, "inf": float("inf"),
    "ninf": float("-inf"),
    "sa": "a", "sempty": "", "ssurr": "\udc80x", "snonbmp": "\U0001F600", "s1": "1",
    # a lone surrogate next to a character that only newer Unicode databases call printable (U+1FAD0, Unicode 13)
    "ssurr2": "\ud800\U0001fad0",
    # a high surrogate directly followed by a low one, as two code points (a JSON text cycle would fuse them)
    "spair": "\ud800\udc00",
    "ba": b"a", "bempty": b"", "none": None, "ellipsis": Ellipsis,
}


def term_value(t):
    tag = t[0]
    if tag == "atom":
        return ATOM_VALUES[t[1]]
    if tag == "tuple":
        return tuple(term_value(x) for x in t[1])
    if tag == "frozenset":
        return frozenset(term_value(x) for x in t[1])
    if tag == "complex":
        return complex(ATOM_VALUES[t[1]], ATOM_VALUES[t[2]])
    raise ValueError(t)


def tag_tree(x):
    """tagged tree of a (supposed) JSON document, see JsonCodec.tla"""
    t = type(x)
    if t is dict:
        items = []
        for k, v in x.items():
            if type(k) is not str:
                return ["x", "key:" + type(k).__name__]
            items.append([k, tag_tree(v)])
        return ["o", items]
    if t is list:
        return ["a", [tag_tree(v) for v in x]]
    if t is str:
        return ["s", x.encode("utf-8", "backslashreplace").decode("ascii", "backslashreplace") if not _encodable(x) else x]
    if t is bool:
        return ["b", x]
    if t is int:
        return ["i", cpy.dec(x), abs(x) < 2 ** 53]
    if t is float:
        if x != x:
            return ["f", "nan"]
        if x in (float("inf"), float("-inf")):
            return ["f", "inf" if x > 0 else "-inf"]
        return ["f", repr(x)]
    if x is None:
        return ["n", "none"]
    return ["x", t.__name__]


def _encodable(s):
    try:
        s.encode("utf-8")
        return True
    except UnicodeEncodeError:
        return False


_LEAF_ATOM = None


def atoms_tree(x):
    """tagged tree of a constant's JSON with leaves replaced by atom names where they match"""
    global _LEAF_ATOM
    if _LEAF_ATOM is None:
        _LEAF_ATOM = {}
        for a, v in ATOM_VALUES.items():
            if type(v) is bool:
                _LEAF_ATOM[("b", v)] = a
            elif type(v) is int:
                _LEAF_ATOM[("i", cpy.dec(v))] = a
                _LEAF_ATOM[("s", cpy.dec(v))] = a  # {"int": "<digits>"}
            elif type(v) is float and v == v and v not in (float("inf"), float("-inf")):
                _LEAF_ATOM[("f", cpy.fbits(v))] = a
            elif type(v) is str:
                _LEAF_ATOM[("s", v)] = a
                _LEAF_ATOM[("s", ascii(v))] = "repr:" + a
            elif type(v) is bytes:
                _LEAF_ATOM[("s", "b64:" + base64.b64encode(v).decode("ascii"))] = "b64:" + a
    t = type(x)
    if t is dict:
        if set(x) == {"bytes"} and type(x["bytes"]) is str:
            return ["o", [["bytes", ["s", _LEAF_ATOM.get(("s", "b64:" + x["bytes"]), "?" + x["bytes"])]]]]
        if set(x) == {"int"} and type(x["int"]) is str:
            return ["o", [["int", ["s", _LEAF_ATOM.get(("i", x["int"]), "?" + x["int"])]]]]
        if set(x) == {"string"} and type(x["string"]) is str:
            return ["o", [["string", ["s", _LEAF_ATOM.get(("s", x["string"]), "?")]]]]
        return ["o", [[k, atoms_tree(v)] for k, v in x.items()]]
    if t is list:
        return ["a", [atoms_tree(v) for v in x]]
    if t is str:
        return ["s", _LEAF_ATOM.get(("s", x), x if x in ("nan", "inf", "-inf", "ellipsis") else "?str")]
    if t is bool:
        return ["b", _LEAF_ATOM.get(("b", x), "?")]
    if t is int:
        return ["i", _LEAF_ATOM.get(("i", cpy.dec(x)), "?int")]
    if t is float:
        if x != x or x in (float("inf"), float("-inf")):
            return ["f", "?special"]
        return ["f", _LEAF_ATOM.get(("f", cpy.fbits(x)), "?float")]
    if x is None:
        return ["n", "none"]
    return ["x", t.__name__]


def schema_tree():
    from code_data import JSON_SCHEMA

    def strip(x):
        if isinstance(x, dict):
            return {k: (v[len("#/definitions/"):] if k == "$ref" and isinstance(v, str) else strip(v)) for k, v in x.items()
                    if k not in ("description", "default", "title")}
        if isinstance(x, list):
            return [strip(v) for v in x]
        return x

    return tag_tree(strip(JSON_SCHEMA)), JSON_SCHEMA


def roundtrip(cd, lenient_code=False):
    """to_json_data -> strict dumps -> loads -> from_json_data, with everything observable.
    lenient_code (hand-built shapes, which need not be encodable): 'identical code' also holds when
    to_code() refuses both the data and its reloaded copy with the same exception type"""
    from code_data import CodeData

    r = {"to_exc": "", "dumps_exc": "", "from_exc": "", "eq": False, "hash": False, "code": False, "code_exc": "",
         "tree": ["x", "none"], "doc": None, "pure_to": True, "pure_from": True, "repeat_eq": True, "alias": False}
    from .api import deep_fp

    try:
        before = json.dumps(deep_fp(cd), sort_keys=True)
        doc = cd.to_json_data()
        doc_fp0 = json.dumps(deep_fp(doc), sort_keys=True)      # taken now: `doc` itself may alias shared state
        r["pure_to"] = json.dumps(deep_fp(cd), sort_keys=True) == before
    except BaseException as ex:  # noqa
        r["to_exc"] = type(ex).__name__
        return r, None
    r["tree"] = tag_tree(doc)
    try:
        text = json.dumps(doc, allow_nan=False)
        text2 = json.dumps(doc, allow_nan=False, ensure_ascii=False)
        r["doc"] = json.loads(text)
    except BaseException as ex:  # noqa
        r["dumps_exc"] = type(ex).__name__
        return r, doc
    try:
        parsed = json.loads(text)
        snap = json.dumps(deep_fp(parsed), sort_keys=True)
        back = CodeData.from_json_data(parsed)
        r["pure_from"] = json.dumps(deep_fp(parsed), sort_keys=True) == snap
        again = CodeData.from_json_data(parsed)          # the same document a second time
        r["repeat_eq"] = again == back and json.dumps(deep_fp(parsed), sort_keys=True) == snap
        back2 = CodeData.from_json_data(json.loads(text2))
        # a JSON object is an unordered collection: serializers that sort keys (or emit them in any other order) write
        # the same document
        back3 = CodeData.from_json_data(json.loads(json.dumps(doc, allow_nan=False, sort_keys=True)))
        back4 = CodeData.from_json_data(_reversed_keys(json.loads(text)))
        # mutating the returned document must not reach the data it came from, nor a later document
        doc_a = cd.to_json_data()
        _scribble(doc_a)
        doc_b = cd.to_json_data()
        r["alias"] = json.dumps(deep_fp(cd), sort_keys=True) != before or \
            json.dumps(deep_fp(doc_b), sort_keys=True) != doc_fp0
    except BaseException as ex:  # noqa
        r["from_exc"] = type(ex).__name__
        return r, doc
    try:
        r["eq"] = (back == cd) and (back2 == cd) and (back3 == cd) and (back4 == cd)
        r["hash"] = hash(back) == hash(cd)
    except BaseException as ex:  # noqa
        r["from_exc"] = "compare:" + type(ex).__name__
    if lenient_code:
        outs = []
        for x in (cd, back):
            try:
                outs.append(("ok", json.dumps(cpy.keyfp(x.to_code()), sort_keys=True)))
            except BaseException as ex:  # noqa
                outs.append(("exc", type(ex).__name__))
        r["code"] = outs[0] == outs[1]
        return r, doc
    try:
        c1 = cd.to_code()
        c2 = back.to_code()
        r["code"] = json.dumps(cpy.keyfp(c1), sort_keys=True) == json.dumps(cpy.keyfp(c2), sort_keys=True)
    except BaseException as ex:  # noqa
        r["code_exc"] = type(ex).__name__
    return r, doc


def _reversed_keys(x):
    if type(x) is dict:
        return {k: _reversed_keys(x[k]) for k in reversed(list(x))}
    if type(x) is list:
        return [_reversed_keys(v) for v in x]
    return x


def _scribble(x):
    """mutate every container of a document in place"""
    if type(x) is dict:
        for v in list(x.values()):
            _scribble(v)
        x["__scribble__"] = 1
    elif type(x) is list:
        for v in x:
            _scribble(v)
        x.append("__scribble__")


def carrier(value, pos):
    """a CodeData built by hand that holds `value` at position `pos`"""
    from code_data import (Args, Cellvar, CodeData, Constant, Freevar, Function, Instruction, Name, Varname)

    ret = Instruction("RETURN_VALUE", line_number=1)
    kw = dict(filename="<json>", first_line_number=1, name="c", stacksize=1)
    if pos == "operand":
        return CodeData(blocks=((Instruction("LOAD_CONST", Constant(value), line_number=1), ret),), **kw)
    if pos == "additional":
        return CodeData(blocks=((Instruction("LOAD_CONST", Constant(None), line_number=1), ret),),
                        _additional_args=(Constant(value, 1),), **kw)
    if pos == "nested":
        inner = CodeData(blocks=((Instruction("LOAD_CONST", Constant(value), line_number=1), ret),),
                         type=Function(Args()), **dict(kw, name="inner"))
        return CodeData(blocks=((Instruction("LOAD_CONST", Constant(inner), line_number=1), ret),), **kw)
    # string positions
    if pos == "name":
        return CodeData(blocks=((Instruction("LOAD_NAME", Name(value), line_number=1), ret),), **kw)
    if pos == "varname":
        return CodeData(blocks=((Instruction("LOAD_FAST", Varname(value), line_number=1), ret),),
                        type=Function(Args(positional_or_keyword=(value,))), **kw)
    if pos == "docstring":
        return CodeData(blocks=((Instruction("LOAD_CONST", Constant(None), line_number=1), ret),),
                        type=Function(Args(), docstring=value), **kw)
    if pos == "freevar":
        return CodeData(blocks=((Instruction("LOAD_DEREF", Freevar(value), line_number=1), ret),),
                        type=Function(Args()), freevars=(value,), **kw)
    if pos == "cellvar":
        return CodeData(blocks=((Instruction("LOAD_DEREF", Cellvar(value), line_number=1), ret),),
                        type=Function(Args()), **kw)
    if pos == "filename":
        return CodeData(blocks=((Instruction("LOAD_CONST", Constant(None), line_number=1), ret),), **dict(kw, filename=value))
    if pos == "codename":
        return CodeData(blocks=((Instruction("LOAD_CONST", Constant(None), line_number=1), ret),), **dict(kw, name=value))
    raise ValueError(pos)


def all_fields_carrier():
    """hand-built data in which every field of every dataclass, private ones included, is non-default"""
    from code_data import (AdditionalLine, Args, Cellvar, CodeData, Constant, Freevar, Function, Instruction, Jump, Name,
                           NoArg, Varname)

    blocks = (
        (Instruction("LOAD_FAST", Varname("p", 0), line_number=3),
         Instruction("POP_JUMP_IF_FALSE", Jump(1), _n_args_override=2, line_number=3, _line_offsets_override=(0, 2)),
         Instruction("LOAD_GLOBAL", Name("g", 1), line_number=4),
         Instruction("POP_TOP", NoArg(7), line_number=4)),
        (Instruction("LOAD_CONST", Constant((1, 2.5, b"x", None, ..., frozenset({3})), 2), line_number=5),
         Instruction("LOAD_DEREF", Cellvar("c", 0), line_number=5),
         Instruction("LOAD_DEREF", Freevar("fr"), line_number=6),
         Instruction("JUMP_FORWARD", Jump(2, True), line_number=6),
         Instruction("CALL_FUNCTION", 2, line_number=7)),
        (Instruction("RETURN_VALUE", line_number=8),),
    )
    return CodeData(
        blocks=blocks, filename="<all>", first_line_number=3, name="allfields", stacksize=5,
        type=Function(Args(("po",), ("p",), "va", ("ko",), "vk"), "the doc", "GENERATOR"), freevars=("fr",),
        future_annotations=True, _nested=True, _additional_line=AdditionalLine(9, (1, -1)),
        _additional_args=(Name("unused", 0), Constant("the doc", 0), Constant(None, 1)),
    )


# --------------------------------------------------------------------------- document shapes (MC_Doc / JsonDoc)


def _s(a):
    return ATOM_VALUES[a] if a in ATOM_VALUES else a


def _opt(o):
    return o[0] if o else None


def abs_arg(a):
    from code_data import Cellvar, Constant, Freevar, Jump, Name, NoArg, Varname

    k = a[0]
    if k == "noarg":
        return NoArg(a[1])
    if k == "int":
        return a[1]
    if k == "jump":
        return Jump(a[1], a[2])
    if k == "name":
        return Name(_s(a[1]), _opt(a[2]))
    if k == "varname":
        return Varname(_s(a[1]), _opt(a[2]))
    if k == "cellvar":
        return Cellvar(_s(a[1]), _opt(a[2]))
    if k == "freevar":
        return Freevar(_s(a[1]))
    if k == "const":
        return Constant(term_value(a[1]), _opt(a[2]))
    if k == "code":
        return Constant(abs_code_data(a[1]), _opt(a[2]))
    raise ValueError(a)


def abs_code_data(c):
    """the real CodeData of an abstract one printed by MC_Doc (see JsonDoc.tla)"""
    from code_data import AdditionalLine, Args, CodeData, Function, Instruction

    blocks = tuple(tuple(Instruction(i["name"], abs_arg(i["arg"]), _n_args_override=_opt(i["nargs"]), line_number=_opt(i["line"]),
                                     _line_offsets_override=tuple(i["lo"])) for i in b) for b in c["blocks"])
    tp = None
    if c["type"][0] == "fn":
        a = c["type"][1]
        tp = Function(Args(tuple(_s(x) for x in a["po"]), tuple(_s(x) for x in a["pk"]), _s(_opt(a["va"])) if a["va"] else None,
                           tuple(_s(x) for x in a["ko"]), _s(_opt(a["vk"])) if a["vk"] else None),
                      _s(c["type"][2][0]) if c["type"][2] else None, _opt(c["type"][3]))
    al = None
    if c["addline"]:
        al = AdditionalLine(_opt(c["addline"][0][0]), tuple(c["addline"][0][1]))
    return CodeData(blocks=blocks, filename=_s(c["filename"]), first_line_number=c["first"], name=_s(c["name"]),
                    stacksize=c["stacksize"], type=tp, freevars=tuple(_s(x) for x in c["freevars"]),
                    future_annotations=c["fut"], _nested=c["nested"], _additional_line=al,
                    _additional_args=tuple(abs_arg(x) for x in c["addargs"]))


def doc_tree(x, const=False):
    """a whole document as JsonDoc.tla writes it: constants by atom name (atoms_tree), skeleton
    integers in decimal, strings by atom name where one matches and literally otherwise"""
    atoms_tree(None)  # make sure the table exists
    t = type(x)
    if t is dict:
        if set(x) == {"string"} and type(x["string"]) is str:
            return atoms_tree(x)
        out = []
        for k, v in x.items():
            if k == "constant" and not (type(v) is dict and "filename" in v):
                out.append([k, atoms_tree(v)])
            else:
                out.append([k, doc_tree(v)])
        return ["o", out]
    if t is list:
        return ["a", [doc_tree(v) for v in x]]
    if t is str:
        return ["s", _LEAF_ATOM.get(("s", x), x)]
    if t is bool:
        return ["b", "true" if x else "false"]
    if t is int:
        return ["i", cpy.dec(x)]
    if x is None:
        return ["n", "none"]
    return ["x", t.__name__]


def _decodable(cd):
    """is this hand-built data something decoding can give (a fixpoint of to_code -> from_code)?"""
    from code_data import CodeData

    try:
        return CodeData.from_code(cd.to_code()) == cd
    except BaseException:  # noqa
        return False


def shapes_to_file(shapes, path):
    """shapes: [[id, abstract CodeData]] printed by MC_Doc"""
    evs = []
    built = 0
    for sid, a in shapes:
        try:
            cd = abs_code_data(a)
        except BaseException:  # noqa: a shape this interpreter's library refuses to construct (positional-only on 3.7)
            continue
        built += 1
        evs.append(_event("shape:%s:%s" % (VER, sid), cd, abs_=a))
    _write(evs, path)
    return [len(evs), sum(1 for e in evs if e["decodable"])]


CONST_POS = ["operand", "additional", "nested"]
STR_POS = ["name", "varname", "docstring", "freevar", "cellvar", "filename", "codename"]


def const_subtree(doc, pos):
    try:
        if pos == "operand":
            return doc["blocks"][0][0]["arg"].get("constant")
        if pos == "additional":
            return doc["_additional_args"][0].get("constant")
        if pos == "nested":
            return doc["blocks"][0][0]["arg"]["constant"]["blocks"][0][0]["arg"].get("constant")
        if pos == "name":
            return doc["blocks"][0][0]["arg"]["name"]
        if pos == "varname":
            return doc["blocks"][0][0]["arg"]["varname"]
        if pos == "docstring":
            return doc["type"]["docstring"]
        if pos == "freevar":
            return doc["blocks"][0][0]["arg"]["freevar"]
        if pos == "cellvar":
            return doc["blocks"][0][0]["arg"]["cellvar"]
        if pos == "filename":
            return doc["filename"]
        if pos == "codename":
            return doc["name"]
    except Exception:
        return None
    return None


def _event(id_, cd, term=None, pos="", abs_=None):
    r, doc = roundtrip(cd, lenient_code=abs_ is not None)
    e = {"id": id_, "ver": VER, "kind": "doc", "has_term": term is not None, "term": term if term is not None else ["none"],
         "pos": pos, "broken": False, "js_ok": True, "has_abs": abs_ is not None, "abs": abs_ if abs_ is not None else [],
         "dtree": doc_tree(doc) if (abs_ is not None and doc is not None) else ["x", "none"], "decodable": True}
    if abs_ is not None:
        e["decodable"] = _decodable(cd)
    e.update(r)
    sub = const_subtree(doc, pos) if (doc is not None and pos) else None
    e["ctree"] = atoms_tree(sub) if (term is not None and doc is not None) else ["x", "none"]
    e["absent"] = term is not None and sub is None and doc is not None
    return e


def _write(evs, path):
    st, raw = schema_tree()
    with open(path, "w") as fh:
        fh.write(json.dumps({"id": "schema", "kind": "schema", "tree": st, "doc": raw}, separators=(",", ":")) + "\n")
        for e in evs:
            fh.write(json.dumps(e, separators=(",", ":"), allow_nan=False) + "\n")


def terms_to_file(terms, path):
    """terms: [[id, term]]; every term at every applicable position"""
    evs = []
    for tid, term in terms:
        v = term_value(term)
        poss = list(CONST_POS)
        if type(v) is str:
            poss += STR_POS
        for pos in poss:
            try:
                cd = carrier(v, pos)
            except BaseException as ex:  # noqa
                continue
            evs.append(_event("t:%s:%s:%s" % (VER, tid, pos), cd, term, pos))
    # deliberately broken documents: only the schema validators are compared on them
    good = [e for e in evs if e["doc"] is not None][:12]
    for i, e in enumerate(good):
        d = copy.deepcopy(e["doc"])
        if i % 4 == 0:
            d.pop("filename", None)
        elif i % 4 == 1:
            d["blocks"] = "nope"
        elif i % 4 == 2:
            d["blocks"][0][0]["name"] = 5
        else:
            d["first_line_number"] = "1"
        evs.append({"id": e["id"] + ":broken", "ver": VER, "kind": "doc", "has_term": False, "term": ["none"], "pos": "",
                    "broken": True, "js_ok": True, "to_exc": "", "dumps_exc": "", "from_exc": "", "eq": False, "hash": False,
                    "code": False, "code_exc": "", "tree": tag_tree(d), "doc": d, "ctree": ["x", "none"], "absent": False,
                    "has_abs": False, "abs": [], "dtree": ["x", "none"], "decodable": True})
    _write(evs, path)
    return len(evs)


def corpus_to_file(files, path, optimize=0, max_units=1500, sources=None):
    from code_data import CodeData

    evs = []
    st = {"events": 0, "skipped": 0, "big": 0}
    tops = []
    for fn in files:
        try:
            with open(fn, "rb") as f:
                tops.append((fn, compile(f.read(), fn, "exec", dont_inherit=True, optimize=optimize)))
        except Exception:
            st["skipped"] += 1
    for s in sources or []:
        try:
            tops.append((s["id"], compile(s["src"], "<json>", s.get("mode", "exec"), dont_inherit=True)))
        except Exception:
            st["skipped"] += 1
    for fn, top in tops:
        for p, c in cpy.all_codes(top):
            # nested code objects are part of their parent's document: only leaf-ish and small ones
            if len(c.co_code) // 2 > max_units or sum(1 for _ in cpy.all_codes(c)) > 6:
                st["big"] += 1
                continue
            try:
                cd = CodeData.from_code(c)
            except BaseException:  # noqa
                continue
            evs.append(_event("c:%s:o%d:%s:%s:dec" % (VER, optimize, fn, p), cd))
            evs.append(_event("c:%s:o%d:%s:%s:norm" % (VER, optimize, fn, p), cd.normalize()))
    st["events"] = len(evs)
    _write(evs, path)
    return st


def bigints_to_file(lengths, path):
    """integers by NUMBER OF DECIMAL DIGITS (both signs) as constants: around 2**53, around the interpreters'
    int <-> str digit limit (4300) and at regular steps far beyond it; the C07 clauses apply to each"""
    evs = []
    for n in lengths:
        for sign in (1, -1):
            v = sign * (10 ** (n - 1) + 7 * (n % 10) + 1)
            for pos in ("operand", "nested"):
                evs.append(_event("big:%s:%d:%s:%s" % (VER, n, "p" if sign > 0 else "n", pos), carrier(v, pos)))
    _write(evs, path)
    return len(evs)


# --------------------------------------------------------------------------- C15: producers and consumers


def _canon_text(doc):
    from .api import canon_json

    return json.dumps(canon_json(doc), sort_keys=True, allow_nan=False)


def produce(path, files=(), sources=(), terms=(), max_units=800, shapes=(), ladder=(), bad=False):
    """documents of this interpreter: one line {id, raw, norm} per code object / carrier"""
    from code_data import CodeData

    n = 0
    with open(path, "w") as fh:
        def emit(id_, cd):
            nonlocal n
            try:
                raw = cd.to_json_data()
                norm = cd.normalize().to_json_data()
                fh.write(json.dumps({"id": id_, "producer": VER, "raw": raw, "norm": norm}, allow_nan=False) + "\n")
                n += 1
            except BaseException:  # noqa
                pass

        tops = []
        for fn in files:
            try:
                with open(fn, "rb") as f:
                    tops.append((fn, compile(f.read(), fn, "exec", dont_inherit=True)))
            except Exception:
                pass
        for s in sources:
            try:
                tops.append((s["id"], compile(s["src"], "<p>", s.get("mode", "exec"), dont_inherit=True)))
            except Exception:
                pass
        for fn, top in tops:
            for p, c in cpy.all_codes(top):
                if len(c.co_code) // 2 > max_units or sum(1 for _ in cpy.all_codes(c)) > 4:
                    continue
                try:
                    emit("c:%s:%s:%s" % (VER, fn, p), CodeData.from_code(c))
                except BaseException:  # noqa
                    pass
        try:
            emit("hand:%s:allfields" % VER, all_fields_carrier())
        except BaseException:  # noqa
            pass
        for tid, term in terms:
            v = term_value(term)
            for pos in CONST_POS + (STR_POS if type(v) is str else []):
                try:
                    emit("t:%s:%s:%s" % (VER, tid, pos), carrier(v, pos))
                except BaseException:  # noqa
                    pass
        for sid, a in shapes:
            try:
                emit("shape:%s:%s" % (VER, sid), abs_code_data(a))
            except BaseException:  # noqa
                pass
        if ladder:
            # code data nested in code data nested in ... : documents of increasing nesting depth
            cd = carrier(0, "operand")
            for d in range(1, max(ladder) + 1):
                try:
                    cd = carrier(cd, "operand")
                except BaseException:  # noqa
                    break
                if d in ladder:
                    emit("ladder:%s:%d" % (VER, d), cd)
        if bad:
            # documents from_json_data must refuse (or not): what a refusal leaves behind is the point
            good = carrier(1, "operand").to_json_data()
            for k, doc in enumerate([{}, [], None, dict(good, blocks=5), dict(good, nonsense=1), dict(good, blocks=[[{"name": 5}]]),
                                     dict(good, type={"args": {"bogus": []}}), dict(good, blocks=[[{"name": "NOP", "arg": {"x": 1}}]])]
                                    + [dict(good, blocks=[[{"name": "<%d>" % q, "arg": 0}] + good["blocks"][0]]) for q in range(256)
                                       if q not in set(__import__("dis").opmap.values())][:40]):
                fh.write(json.dumps({"id": "bad:%s:%d" % (VER, k), "producer": VER, "raw": doc, "norm": doc}) + "\n")
                n += 1
    return n


def load_outcomes(path_in):
    """from_json_data on every document of a producer file: [[id, outcome]] where the outcome is the exception type
    or a fingerprint of the returned data (C12: the same call on the same argument, early and late in a process)"""
    from code_data import CodeData
    from .api import deep_fp

    out = []
    for line in open(path_in):
        d = json.loads(line)
        try:
            r = CodeData.from_json_data(d["raw"])
            o = "ok:" + str(hash(json.dumps(deep_fp(r), sort_keys=True)))
            try:
                o += "/code:" + str(hash(json.dumps(cpy.keyfp(r.to_code()), sort_keys=True)))
            except BaseException as ex:  # noqa
                o += "/code-exc:" + type(ex).__name__
        except BaseException as ex:  # noqa
            o = "exc:" + type(ex).__name__
        out.append([d["id"], o])
    return out


def exotic_calls():
    """calls on inputs no compiler produces, results ignored: what they leave behind in the process is the point
    (C12): code objects with every opcode number the interpreter does not define, empty code, odd tables"""
    import dis
    from code_data import CodeData

    n = 0
    defined = set(dis.opmap.values())
    for op in range(256):
        if op in defined:
            continue
        for arg in (0, 1):
            b = bytes([op, arg, dis.opmap["LOAD_CONST"], 0, dis.opmap["RETURN_VALUE"], 0])
            try:
                c = cpy.code_replace(cpy._BASE, co_code=b, co_consts=(None,), co_names=("n",), co_varnames=(), co_nlocals=0,
                                     co_lnotab=bytes([6, 0]) if cpy.LT else b"")
                n += 1
                CodeData.from_code(c).to_code()
            except BaseException:  # noqa
                pass
    for b in (b"", bytes([dis.opmap["RETURN_VALUE"], 0])):
        try:
            CodeData.from_code(cpy.code_replace(cpy._BASE, co_code=b, co_lnotab=b"")).normalize().to_json_data()
        except BaseException:  # noqa
            pass
    return n


def consume(path_in, path_out, runs):
    """runs: [{ops: [...]}]; every document of path_in through every operation sequence"""
    from code_data import CodeData

    evs = []
    for line in open(path_in):
        d = json.loads(line)
        raw_t = _canon_text(d["raw"])
        norm_t = _canon_text(d["norm"])
        for ri, run in enumerate(runs):
            e = {"id": "%s>%s:%d" % (d["id"], VER, ri), "producer": d["producer"], "consumer": VER, "ops": run["ops"],
                 "same_raw": False, "same_norm": False, "exc": ""}
            try:
                cur = json.loads(json.dumps(d["raw"]))
                for op in run["ops"]:
                    if op == "Load":
                        cur = CodeData.from_json_data(cur)
                    elif op == "Normalize":
                        cur = cur.normalize()
                    elif op == "Dump":
                        cur = cur.to_json_data()
                    elif op == "Reload":
                        cur = json.loads(json.dumps(cur, allow_nan=False))
                t = _canon_text(cur)
                e["same_raw"] = t == raw_t
                e["same_norm"] = t == norm_t
            except BaseException as ex:  # noqa
                e["exc"] = "%s: %s" % (type(ex).__name__, str(ex)[:80])
            evs.append(e)
    with open(path_out, "w") as fh:
        for e in evs:
            fh.write(json.dumps(e, separators=(",", ":")) + "\n")
    return len(evs)
