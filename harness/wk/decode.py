"""Worker commands for the decoder family (C02, C13, C09, C04, C11, C14): one event per code object
with (a) the raw code units classified by this interpreter's own dis tables, (b) CPython's own
reading (dis, PyCode_Addr2Line, inspect), (c) the projection of what the library returned."""
import dis
import inspect
import json
import sys
import types

from . import cpy
from .cpy import LT, NONE

V = sys.version_info[:2]
VER = "%d%d" % V

_HASJABS = set(dis.hasjabs)
_HASJREL = set(dis.hasjrel)
_HASNAME = set(dis.hasname)
_HASLOCAL = set(dis.haslocal)
_HASFREE = set(dis.hasfree)
_HASCONST = set(dis.hasconst)
EXT = dis.EXTENDED_ARG


def op_class(op):
    if op == EXT:
        return "EXT"
    if op in _HASJABS:
        return "JABS"
    if op in _HASJREL:
        return "JREL"
    if op in _HASNAME:
        return "NAME"
    if op in _HASLOCAL:
        return "LOCAL"
    if op in _HASFREE:
        return "FREE"
    if op in _HASCONST:
        return "CONST"
    if op < dis.HAVE_ARGUMENT:
        return "NOARG"
    return "RAW"


class Interner(object):
    """bit-exact fingerprints -> small integers (per event)"""

    def __init__(self):
        self.d = {}
        self.values = {}

    def tok(self, value):
        k = json.dumps(cpy.fp(value), sort_keys=True)
        if k not in self.d:
            self.d[k] = len(self.d)
            self.values[self.d[k]] = value
        return self.d[k]

    def semtok(self, code):
        k = "sem:" + json.dumps(cpy.sem_fp(code), sort_keys=True)
        if k not in self.d:
            self.d[k] = len(self.d)
        return self.d[k]

    def key(self, value):
        k = "key:" + json.dumps(cpy.keyfp(value), sort_keys=True)
        if k not in self.d:
            self.d[k] = len(self.d)
        return self.d[k]


def flag_bits(flags):
    return [i for i in range(32) if flags >> i & 1]


def flag_table():
    """this interpreter's own flag names -> bit index"""
    import __future__

    t = {}
    for bit, name in dis.COMPILER_FLAG_NAMES.items():
        t[name] = bit.bit_length() - 1
    for name in __future__.all_feature_names:
        f = getattr(__future__, name).compiler_flag
        if name in ("nested_scopes", "generators"):
            continue
        t[name] = f.bit_length() - 1
    return t


def wide_operand(code):
    """True if some instruction's folded operand needs >= 32 bits (kept out of TLC: 32-bit ints)"""
    b = code.co_code
    n = 0
    top = 0
    for i in range(0, len(b), 2):
        if b[i] == EXT:
            if n == 0:
                top = b[i + 1]
            n += 1
        else:
            if n >= 3 and top >= 0x80:
                return True
            n = 0
    return False


def cpy_reading(code, it):
    """dis / Addr2Line / tables as CPython itself reads them"""
    r = {}
    b = code.co_code
    r["units"] = [[op_class(b[i]), dis.opname[b[i]], b[i + 1]] for i in range(0, len(b), 2)]
    r["names"] = [it.tok(x) for x in code.co_names]
    r["varnames"] = [it.tok(x) for x in code.co_varnames]
    r["cellvars"] = [it.tok(x) for x in code.co_cellvars]
    r["freevars"] = [it.tok(x) for x in code.co_freevars]
    r["consts"] = [it.tok(x) for x in code.co_consts]
    # the same with nested code objects identified by meaning instead of bits (C05/C06)
    r["consts_sem"] = [it.semtok(x) if isinstance(x, types.CodeType) else it.tok(x) for x in code.co_consts]
    r["name_keys"] = [it.key(x) for x in code.co_names]
    r["varname_keys"] = [it.key(x) for x in code.co_varnames]
    r["cellvar_keys"] = [it.key(x) for x in code.co_cellvars]
    r["const_keys"] = [it.key(x) for x in code.co_consts]
    r["none_key"] = it.key(None)
    r["const_is_str"] = [type(x) is str for x in code.co_consts]
    r["const_is_code"] = [isinstance(x, types.CodeType) for x in code.co_consts]
    r["expected_all"] = sum(1 for _ in cpy.all_codes(code))
    r["table"] = list(cpy.linetable_of(code))
    r["first"] = code.co_firstlineno
    r["argcount"] = code.co_argcount
    r["posonly"] = code.co_posonlyargcount if V >= (3, 8) else 0
    r["kwonly"] = code.co_kwonlyargcount
    r["flags"] = flag_bits(code.co_flags)
    r["nlocals"] = code.co_nlocals
    r["stacksize"] = code.co_stacksize
    r["name"] = it.tok(code.co_name)
    r["filename"] = it.tok(code.co_filename)
    # per unit line (absolute; NONE where CPython reports none)
    n = len(b) // 2
    r["cpy_lines"] = [cpy.NONE if x is None else x for x in (cpy.addr2line(code, 2 * k) for k in range(n))]
    # dis: EXTENDED_ARG pseudo instructions filtered out
    d = []
    for ins in dis.get_instructions(code):
        if ins.opcode == EXT:
            continue
        cls = op_class(ins.opcode)
        tgt = -1
        tok = -1
        if cls in ("JABS", "JREL"):
            tgt = ins.argval
        elif cls in ("NAME", "LOCAL", "FREE", "CONST"):
            try:
                tok = it.tok(ins.argval)
            except Exception:
                tok = -3
        d.append([ins.offset, ins.opname, -1 if ins.arg is None else ins.arg, tok, tgt])
    r["dis"] = d
    return r


KIND = {"Jump": "J", "Name": "N", "Varname": "V", "Constant": "K", "Freevar": "F", "Cellvar": "C", "NoArg": "0",
        "int": "I"}


def _ovr(x):
    return -1 if x is None else x


def lib_projection(code, it, cd=None, nested_tok=None):
    """CodeData.from_code(code) projected onto tokens (or a given CodeData `cd`; then `nested_tok`
    says how a nested CodeData constant is tokenised)"""
    from code_data import (Cellvar, CodeData, Constant, Freevar, Function, Jump, Name, NoArg, Varname)

    r = {"exc": "", "exc_type": ""}
    try:
        if cd is None:
            cd = CodeData.from_code(code)
    except BaseException as e:  # noqa
        r["exc"] = "%s: %s" % (type(e).__name__, e)
        r["exc_type"] = type(e).__name__
        return r, None
    nested_expected = None

    def const_tok(v):
        nonlocal nested_expected
        if isinstance(v, CodeData) and nested_tok is not None:
            return nested_tok(v)
        if isinstance(v, CodeData):
            if nested_expected is None:
                nested_expected = []
                for c in code.co_consts:
                    if isinstance(c, types.CodeType):
                        try:
                            nested_expected.append((CodeData.from_code(c), c))
                        except Exception:
                            pass
            for d, c in nested_expected:
                if d == v:
                    return it.tok(c)
            return -2
        return it.tok(v)

    def arg_proj(a):
        if isinstance(a, Jump):
            return ["J", a.target, 1 if a.relative else 0]
        if isinstance(a, Name):
            return ["N", it.tok(a.name), _ovr(a._index_override)]
        if isinstance(a, Varname):
            return ["V", it.tok(a.varname), _ovr(a._index_override)]
        if isinstance(a, Constant):
            return ["K", const_tok(a.constant), _ovr(a._index_override)]
        if isinstance(a, Freevar):
            return ["F", it.tok(a.freevar), -1]
        if isinstance(a, Cellvar):
            return ["C", it.tok(a.cellvar), _ovr(a._index_override)]
        if isinstance(a, NoArg):
            return ["0", a._arg, -1]
        if type(a) is int:
            return ["I", a, -1]
        return ["?", -9, -1]

    instrs = []
    starts = []
    for blk in cd.blocks:
        starts.append(len(instrs))
        for ins in blk:
            instrs.append([ins.name] + arg_proj(ins.arg) + [_ovr(ins._n_args_override),
                                                            NONE if ins.line_number is None else ins.line_number,
                                                            list(ins._line_offsets_override)])
    r["instrs"] = instrs
    r["block_starts"] = starts
    r["block_lens"] = [len(b) for b in cd.blocks]
    r["additional"] = [arg_proj(a) for a in cd._additional_args]
    al = cd._additional_line
    r["addline"] = [] if al is None else [[NONE if al.line is None else al.line, list(al.additional_offsets)]]
    r["first"] = cd.first_line_number
    r["name"] = it.tok(cd.name)
    r["filename"] = it.tok(cd.filename)
    r["stacksize"] = cd.stacksize
    r["freevars"] = [it.tok(x) for x in cd.freevars]
    r["annotations"] = bool(cd.future_annotations)
    r["nested"] = bool(cd._nested)
    t = cd.type
    r["is_fn"] = isinstance(t, Function)
    if r["is_fn"]:
        a = t.args
        r["args"] = {
            "po": [it.tok(x) for x in a.positional_only],
            "pk": [it.tok(x) for x in a.positional_or_keyword],
            "va": [] if a.var_positional is None else [it.tok(a.var_positional)],
            "ko": [it.tok(x) for x in a.keyword_only],
            "vk": [] if a.var_keyword is None else [it.tok(a.var_keyword)],
        }
        try:
            r["params"] = [[it.tok(k), int(v)] for k, v in a.parameters.items()]
            r["nargs"] = len(a)
        except Exception as e:
            r["params"] = []
            r["nargs"] = -1
        r["doc"] = [] if t.docstring is None else [it.tok(t.docstring)]
        r["fn_type"] = t.type or ""
    else:
        r["args"] = {"po": [], "pk": [], "va": [], "ko": [], "vk": []}
        r["params"] = []
        r["nargs"] = 0
        r["doc"] = []
        r["fn_type"] = ""
    # C14: what iteration yields (tokens of the constant-table entries they equal; -2 = none)
    if code is not None:
        try:
            r["iter"] = [const_tok(x) for x in cd]
            allcd = list(cd.all_code_data())
            r["all_count"] = len(allcd)
            r["all_first_self"] = bool(allcd) and allcd[0] is cd
            r["iter_exc"] = ""
        except BaseException as e:  # noqa
            r["iter"] = []
            r["all_count"] = -1
            r["all_first_self"] = False
            r["iter_exc"] = type(e).__name__
    return r, cd


def inspect_reading(code, it):
    """what CPython's calling convention / inspect say about a function built from this code"""
    r = {"ok": False}
    flags = code.co_flags
    if not (flags & 0x2 and flags & 0x1):  # NEWLOCALS and OPTIMIZED: function-like scope
        return r
    try:
        closure = tuple(types.CellType() if V >= (3, 8) else _cell() for _ in code.co_freevars) or None
        f = types.FunctionType(code, {}, code.co_name, None, closure)
    except Exception as e:
        r["err"] = "%s: %s" % (type(e).__name__, e)
        return r
    r["ok"] = True
    r["doc"] = [] if f.__doc__ is None else [it.tok(f.__doc__)]
    kind = ""
    if inspect.isasyncgenfunction(f):
        kind = "ASYNC_GENERATOR"
    elif inspect.iscoroutinefunction(f):
        kind = "COROUTINE"
    elif inspect.isgeneratorfunction(f):
        kind = "GENERATOR"
    r["kind"] = kind
    # calling convention read straight from the header (this is what inspect._signature_from_function does)
    po = code.co_posonlyargcount if V >= (3, 8) else 0
    ac, kw = code.co_argcount, code.co_kwonlyargcount
    vn = code.co_varnames
    params = []
    for i in range(ac):
        params.append([it.tok(vn[i]), 0 if i < po else 1])
    pos = ac + kw
    if flags & 0x4:
        params_va = [it.tok(vn[pos]), 2]
        pos += 1
    else:
        params_va = None
    kwo = [[it.tok(vn[ac + i]), 3] for i in range(kw)]
    if params_va:
        params.append(params_va)
    params.extend(kwo)
    if flags & 0x8:
        params.append([it.tok(vn[pos]), 4])
    r["bind"] = params
    # inspect.signature, when the names are identifiers
    try:
        sig = inspect.signature(f)
        r["sig"] = [[it.tok(p.name), int(p.kind)] for p in sig.parameters.values()]
        # a comprehension's implicit ".0" is bound positionally-or-by-keyword by CPython but shown as a
        # positional-only "implicit0" by inspect: only the calling-convention reading is used there
        r["sig_ok"] = all(n.isidentifier() for n in code.co_varnames[: len(params)])
    except Exception:
        r["sig"] = []
        r["sig_ok"] = False
    return r


def _cell():
    def f():
        x = None

        def g():
            return x

        return g

    return f().__closure__[0]


def event(code, id_):
    it = Interner()
    e = {"id": id_, "ver": VER, "lt": LT, "scale": 2 if V >= (3, 10) else 1}
    e["c"] = cpy_reading(code, it)
    lib, cd = lib_projection(code, it)
    e["lib"] = lib
    e["insp"] = inspect_reading(code, it)
    e["wide"] = wide_operand(code)
    return e, cd


# --------------------------------------------------------------------------- C09: ranks and removal experiments

TABLE_OF = {"N": "co_names", "V": "co_varnames", "C": "co_cellvars", "K": "co_consts"}
CLS_KIND = {"NAME": "N", "LOCAL": "V", "CONST": "K"}


def natural_ranks(code):
    """rank of every table entry in order of first use, computed from CPython's own reading:
    parameters (co_varnames) and a docstring (constant 0 of a function whose first constant is a
    string) count first; entries no instruction references follow in table order."""
    flags = code.co_flags
    fnlike = bool(flags & 1 and flags & 2)
    ranks = {"N": {}, "V": {}, "C": {}, "K": {}}
    if fnlike:
        npar = code.co_argcount + code.co_kwonlyargcount + bool(flags & 4) + bool(flags & 8)
        for i in range(min(npar, len(code.co_varnames))):
            ranks["V"][i] = i
        if code.co_consts and type(code.co_consts[0]) is str:
            ranks["K"][0] = 0
    ncell = len(code.co_cellvars)
    for ins in dis.get_instructions(code):
        cls = op_class(ins.opcode)
        if cls in CLS_KIND:
            k = CLS_KIND[cls]
            idx = ins.arg
        elif cls == "FREE" and ins.arg < ncell:
            k, idx = "C", ins.arg
        else:
            continue
        if idx not in ranks[k]:
            ranks[k][idx] = len(ranks[k])
    for k, attr in TABLE_OF.items():
        for i in range(len(getattr(code, attr))):
            if i not in ranks[k]:
                ranks[k][i] = len(ranks[k])
    return ranks


def removal_experiments(code, cd, limit=12):
    """for every entry that carries an override although it sits at its natural rank: strip the
    override from all its uses, re-encode, and compare with the original code object"""
    from dataclasses import replace

    from code_data import Cellvar, Constant, Name, Varname

    cls_of = {"N": Name, "V": Varname, "C": Cellvar, "K": Constant}
    ranks = natural_ranks(code)
    cands = []
    seen = set()

    def look(a):
        for k, cl in cls_of.items():
            if type(a) is cl and a._index_override is not None:
                idx = a._index_override
                if (k, idx) not in seen and ranks[k].get(idx) == idx:
                    seen.add((k, idx))
                    cands.append((k, idx))

    for blk in cd.blocks:
        for ins in blk:
            look(ins.arg)
    for a in cd._additional_args:
        look(a)
    out = []
    for k, idx in cands[:limit]:
        cl = cls_of[k]

        def strip(a):
            if type(a) is cl and a._index_override == idx:
                return replace(a, _index_override=None)
            return a

        cd2 = replace(
            cd,
            blocks=tuple(tuple(replace(i, arg=strip(i.arg)) for i in b) for b in cd.blocks),
            _additional_args=tuple(strip(a) for a in cd._additional_args),
        )
        try:
            c2 = cd2.to_code()
            changed = bool(cpy.code_diff(code, c2))
            how = "differs" if changed else "same"
        except BaseException as e:  # noqa
            changed = True
            how = type(e).__name__
        out.append([k, idx, changed, how])
    return out, len(cands)


_LIB_DEFAULTS = dict(
    instrs=[], block_starts=[], block_lens=[], additional=[], addline=[], first=0, name=-1, filename=-1, stacksize=0,
    freevars=[], annotations=False, nested=False, is_fn=False,
    args={"po": [], "pk": [], "va": [], "ko": [], "vk": []}, params=[], nargs=0, doc=[], fn_type="",
    removal=[], removal_candidates=0, iter=[], all_count=-1, all_first_self=False, iter_exc="", exc="", exc_type="",
)
_INSP_DEFAULTS = dict(ok=False, doc=[], kind="", bind=[], sig=[], sig_ok=False, err="")


def full_event(code, id_):
    from code_data import CodeData

    e, cd = event(code, id_)
    lib = dict(_LIB_DEFAULTS)
    lib.update(e["lib"])
    if cd is not None:
        rem, ncand = removal_experiments(code, cd)
        lib["removal"] = rem
        lib["removal_candidates"] = ncand
    e["lib"] = lib
    insp = dict(_INSP_DEFAULTS)
    insp.update(e["insp"])
    e["insp"] = insp
    e["ranks"] = {k: [v[i] for i in range(len(v))] for k, v in natural_ranks(code).items()}
    e["has_decl"] = False
    e["decl"] = []
    return e


def direct_event(code, id_):
    """A code object too large for TLC's sequences: the clauses of C02 / C13 are decided here, by code that shares
    nothing with the library (dis, dis argval for jump targets, PyCode_Addr2Line) against the flattened blocks."""
    from code_data import Cellvar, CodeData, Constant, Freevar, Jump, Name, Varname

    e = {"id": id_, "ver": VER, "kind": "direct", "exc": "", "count": False, "names": False, "operands": False,
         "jumps": False, "lines": False, "partition": False, "targets": False, "jump_range": False,
         "n": len(code.co_code) // 2}
    try:
        cd = CodeData.from_code(code)
    except BaseException as ex:  # noqa
        e["exc"] = type(ex).__name__
        return e
    real = []
    start = None
    for i in dis.get_instructions(code):
        if start is None:
            start = i.offset
        if i.opcode != EXT:
            real.append((start, i))
            start = None
    idx_of = {st: k for k, (st, _) in enumerate(real)}
    flat = [x for b in cd.blocks for x in b]
    nb = len(cd.blocks)
    starts = []
    k = 0
    for b in cd.blocks:
        starts.append(k)
        k += len(b)
    e["partition"] = nb >= 1 and all(len(b) >= 1 for b in cd.blocks)
    e["jump_range"] = all(0 <= x.arg.target < nb for x in flat if isinstance(x.arg, Jump))
    e["count"] = len(flat) == len(real)
    if not e["count"]:
        return e
    jrel = set(dis.hasjrel)
    jany = jrel | set(dis.hasjabs)
    tgt = {0}
    ok_t = True
    names = ops = jumps = lines = True
    ncell = len(code.co_cellvars)
    for (st, i), x in zip(real, flat):
        a = x.arg
        names = names and i.opname == x.name
        lines = lines and cpy.addr2line(code, st) == x.line_number
        if i.opcode in jany:
            t = idx_of.get(i.argval)
            if t is None:
                ok_t = False
            else:
                tgt.add(t)
            jumps = jumps and isinstance(a, Jump) and 0 <= a.target < nb and t is not None and starts[a.target] == t \
                and a.relative == (i.opcode in jrel)
        elif i.opcode in dis.hasname:
            ops = ops and isinstance(a, Name) and a.name == code.co_names[i.arg]
        elif i.opcode in dis.haslocal:
            ops = ops and isinstance(a, Varname) and a.varname == code.co_varnames[i.arg]
        elif i.opcode in dis.hasfree:
            if i.arg < ncell:
                ops = ops and isinstance(a, Cellvar) and a.cellvar == code.co_cellvars[i.arg]
            else:
                ops = ops and isinstance(a, Freevar) and a.freevar == code.co_freevars[i.arg - ncell]
        elif i.opcode in dis.hasconst:
            v = code.co_consts[i.arg]
            if isinstance(v, types.CodeType):
                ops = ops and isinstance(a, Constant) and isinstance(a.constant, CodeData)
            else:
                ops = ops and isinstance(a, Constant) and not isinstance(a.constant, CodeData) and cpy.fp(a.constant) == cpy.fp(v)
        elif i.opcode >= dis.HAVE_ARGUMENT:
            ops = ops and type(a) is int and a == i.arg
    e["names"], e["operands"], e["jumps"], e["lines"] = names, ops, jumps, lines
    e["targets"] = ok_t and set(starts) == tgt
    return e


BIGJUMP = "def f(x, y):\n    if x:\n" + "        y = y + 1\n" * 17000 + "    return y\n"


def bigjump_to_file(path):
    """one function whose `if` skips more than 65 536 code units (a jump operand that needs TWO EXTENDED_ARG prefixes
    on every version); direct events for it and its module"""
    top = compile(BIGJUMP, "<bigjump>", "exec", dont_inherit=True)
    evs = [direct_event(c, "b:%s:bigjump:%s" % (VER, p)) for p, c in cpy.all_codes(top)]
    with open(path, "w") as fh:
        for e in evs:
            fh.write(json.dumps(e, separators=(",", ":")) + "\n")
    return len(evs)


def corpus_to_file(files, path, optimize=0, max_units=6000, mode="exec"):
    evs = []
    skipped = 0
    big = 0
    wide = 0
    for fn in files:
        try:
            with open(fn, "rb") as f:
                src = f.read()
            code = compile(src, fn, mode, dont_inherit=True, optimize=optimize)
        except Exception:
            skipped += 1
            continue
        for p, c in cpy.all_codes(code):
            id_ = "c:%s:o%d:%s:%s" % (VER, optimize, fn, p)
            if len(c.co_code) // 2 > max_units or len(cpy.linetable_of(c)) // 2 > 4000:
                big += 1
                evs.append(direct_event(c, id_))
                continue
            ev = full_event(c, id_)
            if ev["wide"]:
                wide += 1
                continue
            evs.append(ev)
    with open(path, "w") as fh:
        for e in evs:
            fh.write(json.dumps(e, separators=(",", ":")) + "\n")
    return {"events": len(evs), "skipped": skipped, "big": big, "wide": wide}


def _tok_of(ev, code, name):
    """token of a parameter name inside an already built event (looked up through co_varnames)"""
    vn = list(code.co_varnames)
    return ev["c"]["varnames"][vn.index(name)] if name in vn else -5


def sources_to_file(sources, path, max_units=6000):
    """sources: [{id, src, mode, optimize}]"""
    evs = []
    bad = []
    for s in sources:
        try:
            code = cpy.compile_source(s)
        except Exception as e:
            bad.append([s["id"], "%s: %s" % (type(e).__name__, e)])
            continue
        codes = [(p, c, "") for p, c in cpy.all_codes(code)]
        if s.get("recode"):
            # the library's own output is a code object like any other: decode what normalize().to_code() (and the
            # plain to_code()) of this program gives, too
            from code_data import CodeData

            for tag, fn in (("~n", lambda d: d.normalize().to_code()), ("~r", lambda d: d.to_code())):
                try:
                    c2 = fn(CodeData.from_code(code))
                except BaseException:  # noqa
                    continue
                if tag == "~r" and cpy.code_fp(c2) == cpy.code_fp(code):
                    continue
                codes += [(p, c, tag) for p, c in cpy.all_codes(c2)]
        for p, c, tag in codes:
            ev = full_event(c, "%s%s:%s:%s" % (s["id"], tag, VER, p))
            if "decl" in s and c.co_name == s.get("target"):
                # the declaration this code object was rendered from, in the event's own tokens
                ev["has_decl"] = True
                ev["decl"] = [[_tok_of(ev, c, n), k] for n, k in s["decl"]]
            if not ev["wide"] and len(c.co_code) // 2 <= max_units:
                evs.append(ev)
    with open(path, "w") as fh:
        for e in evs:
            fh.write(json.dumps(e, separators=(",", ":")) + "\n")
    return {"events": len(evs), "uncompilable": bad}


# --------------------------------------------------------------------------- spec -> code: synthetic streams

REP_OP = {
    "EXT": "EXTENDED_ARG", "JABS": "JUMP_ABSOLUTE", "JREL": "JUMP_FORWARD", "NAME": "LOAD_NAME", "LOCAL": "LOAD_FAST",
    "FREE": "LOAD_DEREF", "CONST": "LOAD_CONST", "NOARG": "POP_TOP", "RAW": "CALL_FUNCTION",
}
# alternates exercise a second opcode of each class
REP_OP2 = {
    "JABS": "POP_JUMP_IF_FALSE", "JREL": "FOR_ITER", "NAME": "STORE_NAME", "LOCAL": "STORE_FAST",
    "FREE": "LOAD_CLOSURE", "NOARG": "NOP", "RAW": "BUILD_TUPLE",
}
SYN_TABLES = dict(
    co_names=("n0", "n1", "n2"), co_varnames=("v0", "v1"), co_cellvars=("c0",), co_freevars=("f0",),
    co_consts=(0, "s", 1.5),
)


def synth_code(units, alt=False, scope="module"):
    """a real code object of this interpreter whose code units are `units` = [[cls, byte], ...];
    scope "shadow": the free variable has the cell variable's name; "dup": the first constant is there twice"""
    b = bytearray()
    for i, (cls, byte) in enumerate(units):
        name = (REP_OP2.get(cls) if alt and i % 2 else None) or REP_OP[cls]
        b += bytes([dis.opmap[name], byte])
    n = len(units)
    table = bytes([min(254, 2 * n), 0]) if LT else b""
    assert 2 * n <= 254
    return cpy.code_replace(
        cpy._BASE, co_code=bytes(b), co_lnotab=table, co_nlocals=2, co_stacksize=10, co_flags=0,
        **(dict(SYN_TABLES, co_freevars=SYN_TABLES["co_cellvars"]) if scope == "shadow"
           else dict(SYN_TABLES, co_consts=(0, "s", 0)) if scope == "dup" else SYN_TABLES)
    )


def units_to_file(cases, path):
    """cases: [{id, units:[[cls, byte]..]}]"""
    evs = []
    for c in cases:
        code = synth_code(c["units"], c.get("alt", False), c.get("scope") or "module")
        evs.append(full_event(code, c["id"]))
    with open(path, "w") as fh:
        for e in evs:
            fh.write(json.dumps(e, separators=(",", ":")) + "\n")
    return len(evs)


# --------------------------------------------------------------------------- C14: nesting shapes


def nest_code(tree, name="n"):
    """a real code object for an MC_Nesting tree: [[mode, subtree], ...]; mode "once" / "twice" /
    "unref" says how many LOAD_CONST instructions reference that code constant"""
    # every code object holds its own NaN object: two builds of the same subtree are different code objects for
    # CPython (constants are keyed by identity there) that decode to equal data
    consts = [None, float("nan")]
    body = bytearray()
    prev = None
    for k, ent in enumerate(tree):
        mode, sub = ent[0], ent[1]
        twin = len(ent) > 2 and ent[2] and prev is not None
        if twin:
            child = nest_code(prev[0], prev[1])
        else:
            prev = (sub, "%s%d" % (name, k))
            child = nest_code(sub, prev[1])
        consts.append(child)
        idx = len(consts) - 1
        for _ in range({"once": 1, "twice": 2, "unref": 0}[mode]):
            body += bytes([dis.opmap["LOAD_CONST"], idx, dis.opmap["POP_TOP"], 0])
    body += bytes([dis.opmap["LOAD_CONST"], 0, dis.opmap["RETURN_VALUE"], 0])
    n = len(body) // 2
    table = bytes([2 * n, 0]) if LT else b""
    return cpy.code_replace(cpy._BASE, co_code=bytes(body), co_consts=tuple(consts), co_name=name, co_lnotab=table,
                            co_stacksize=2)


def nests_to_file(cases, path):
    evs = []
    for c in cases:
        code = nest_code(c["tree"])
        for p, k in cpy.all_codes(code):
            evs.append(full_event(k, "%s:%s" % (c["id"], p)))
    with open(path, "w") as fh:
        for e in evs:
            fh.write(json.dumps(e, separators=(",", ":")) + "\n")
    return len(evs)
