"""An independent mini (dis)assembler used to build LAYOUT VARIANTS of real code objects (C06):
table permutations with consistently renumbered operands, unreferenced table entries, redundant
EXTENDED_ARG prefixes on jumps, CO_NESTED.  It shares no code with the library under test.  Every
variant is self-checked: its meaning fingerprint (cpy.sem_fp, i.e. dis + PyCode_Addr2Line + header)
must equal the base's, otherwise the harness reports a machinery error, never a violation."""
import dis
import sys
import types

from . import cpy

V = sys.version_info[:2]
LT = V >= (3, 10)
EXT = dis.EXTENDED_ARG
JREL = set(dis.hasjrel)
JABS = set(dis.hasjabs)


def disassemble(code):
    """[{'op', 'arg', 'line', 'target' (instruction index or None), 'width'}]"""
    b = code.co_code
    out = []
    arg = 0
    n = 0
    start = None
    offs = {}
    for i in range(0, len(b), 2):
        if start is None:
            start = i
        arg |= b[i + 1]
        n += 1
        if b[i] == EXT:
            arg <<= 8
            continue
        offs[start] = len(out)
        out.append({"op": b[i], "arg": arg, "line": cpy.addr2line(code, start), "off": start, "next": i + 2, "width": n,
                    "target": None})
        arg = 0
        n = 0
        start = None
    scale = 2 if LT else 1
    for ins in out:
        if ins["op"] in JABS:
            ins["target"] = offs[ins["arg"] * scale]
        elif ins["op"] in JREL:
            ins["target"] = offs[ins["next"] + ins["arg"] * scale]
    return out


def _size(arg):
    return 1 if arg <= 0xFF else 2 if arg <= 0xFFFF else 3 if arg <= 0xFFFFFF else 4


def assemble(instrs, extra_width=None):
    """lay the instructions out again; extra_width[i] = additional (redundant) EXTENDED_ARG units"""
    extra_width = extra_width or {}
    n = len(instrs)
    args = [ins["arg"] if ins["target"] is None else 0 for ins in instrs]
    scale = 2 if LT else 1
    for _ in range(64):
        sizes = [_size(a) + extra_width.get(i, 0) for i, a in enumerate(args)]
        offs = [0] * (n + 1)
        for i in range(n):
            offs[i + 1] = offs[i] + 2 * sizes[i]
        new = list(args)
        for i, ins in enumerate(instrs):
            if ins["target"] is not None:
                t = offs[ins["target"]]
                new[i] = (t // scale) if ins["op"] in JABS else (t - offs[i + 1]) // scale
                assert new[i] >= 0
        if new == args:
            break
        args = new
    else:
        raise RuntimeError("layout did not converge")
    sizes = [_size(a) + extra_width.get(i, 0) for i, a in enumerate(args)]
    b = bytearray()
    for i, ins in enumerate(instrs):
        for k in reversed(range(sizes[i])):
            b += bytes([ins["op"] if k == 0 else EXT, (args[i] >> (8 * k)) & 0xFF])
    return bytes(b), offs, sizes


def line_table(instrs, offs, first):
    """a table that gives every instruction its line again (a fresh one: which redundant entries
    exist is itself a serialisation artefact)"""
    tab = bytearray()
    if LT:
        # ranges of equal line
        i = 0
        prev = first
        n = len(instrs)
        while i < n:
            j = i
            while j + 1 < n and instrs[j + 1]["line"] == instrs[i]["line"]:
                j += 1
            bd = offs[j + 1] - offs[i]
            line = instrs[i]["line"]
            if line is None:
                ld = -128
            else:
                ld = line - prev
                prev = line
                while ld > 127:
                    tab += bytes([0, 127])
                    ld -= 127
                while ld < -127:
                    tab += bytes([0, (-127) & 0xFF])
                    ld += 127
            while bd > 254:
                tab += bytes([254, ld & 0xFF])
                ld = -128 if line is None else 0
                bd -= 254
            tab += bytes([bd, ld & 0xFF])
            i = j + 1
        return bytes(tab)
    lineno = first
    lineoff = 0
    for i, ins in enumerate(instrs):
        dl = ins["line"] - lineno
        if dl == 0:
            continue
        db = offs[i] - lineoff
        while db > 255:
            tab += bytes([255, 0])
            db -= 255
        while dl > 127:
            tab += bytes([db, 127])
            db = 0
            dl -= 127
        while dl < -128:
            tab += bytes([db, 0x80])
            db = 0
            dl += 128
        tab += bytes([db, dl & 0xFF])
        lineno = ins["line"]
        lineoff = offs[i]
    return bytes(tab)


def n_params(code):
    fl = code.co_flags
    if not (fl & 1 and fl & 2):
        return 0
    return code.co_argcount + code.co_kwonlyargcount + bool(fl & 4) + bool(fl & 8)


def variant(code, rnd, nested_variants=None):
    """one random layout variant of `code` (nested code objects replaced by their own variants when
    `nested_variants` maps id(code) -> variant); returns (variant code, list of edits applied)"""
    ins = disassemble(code)
    edits = []
    names = list(code.co_names)
    consts = list(code.co_consts)
    varnames = list(code.co_varnames)
    if nested_variants:
        consts = [nested_variants.get(id(c), c) if isinstance(c, types.CodeType) else c for c in consts]
    fl = code.co_flags
    fnlike = bool(fl & 1 and fl & 2)

    def permute(tbl, lo, classes, label):
        idx = list(range(lo, len(tbl)))
        if len(idx) < 2:
            return tbl
        sh = idx[:]
        rnd.shuffle(sh)
        perm = dict(zip(idx, sh))  # old index -> new index
        new = list(tbl)
        for o, nw in perm.items():
            new[nw] = tbl[o]
        for i_ in ins:
            if i_["op"] in classes and i_["arg"] in perm:
                i_["arg"] = perm[i_["arg"]]
        edits.append(label)
        return new

    if rnd.random() < 0.7:
        names = permute(names, 0, set(dis.hasname), "permute-names")
    if rnd.random() < 0.7:
        consts = permute(consts, 1 if fnlike else 0, set(dis.hasconst), "permute-consts")
    if rnd.random() < 0.5:
        varnames = permute(varnames, n_params(code), set(dis.haslocal), "permute-locals")
    if rnd.random() < 0.5:
        names.append("unref_%d" % rnd.randrange(100))
        edits.append("add-unreferenced-name")
    if rnd.random() < 0.5:
        consts.append(("unref", rnd.randrange(100)))
        edits.append("add-unreferenced-const")
    if rnd.random() < 0.3 and fnlike:
        varnames.append("unref_local")
        edits.append("add-unreferenced-local")
    extra = {}
    if not LT or True:
        jumps = [i for i, x in enumerate(ins) if x["target"] is not None]
        for i in jumps:
            if rnd.random() < 0.3:
                extra[i] = 1
        if extra:
            edits.append("redundant-extended-arg")
    if rnd.random() < 0.5:
        fl ^= 0x10
        edits.append("toggle-nested")
    b, offs, sizes = assemble(ins, extra)
    tab = line_table(ins, offs, code.co_firstlineno)
    kw = dict(co_code=b, co_names=tuple(names), co_consts=tuple(consts), co_varnames=tuple(varnames),
              co_nlocals=len(varnames), co_flags=fl)
    kw["co_linetable" if LT else "co_lnotab"] = tab
    return cpy.code_replace(code, **kw), edits
