"""CPython-side helpers shared by the worker command modules (3.7-clean)."""
import ctypes
import dis
import struct
import sys
import types

V = sys.version_info[:2]
LT = V >= (3, 10)
NONE = -99999  # Lines!None / CPyLines!NoLine
ABSENT = -88888

_addr2line = ctypes.pythonapi.PyCode_Addr2Line
_addr2line.argtypes = [ctypes.py_object, ctypes.c_int]
_addr2line.restype = ctypes.c_int


def addr2line(code, off):
    """CPython's own answer; None where it reports no line (3.10: -1)."""
    r = _addr2line(code, off)
    if LT and r < 0:
        return None
    return r


def linetable_of(code):
    return code.co_linetable if LT else code.co_lnotab


CODE_FIELDS = [
    "co_argcount",
    "co_posonlyargcount",
    "co_kwonlyargcount",
    "co_nlocals",
    "co_stacksize",
    "co_flags",
    "co_code",
    "co_consts",
    "co_names",
    "co_varnames",
    "co_filename",
    "co_name",
    "co_firstlineno",
    "co_lnotab",
    "co_freevars",
    "co_cellvars",
]
if V < (3, 8):
    CODE_FIELDS.remove("co_posonlyargcount")


def code_replace(code, **kw):
    """code.replace for every version; `co_linetable` may be given on 3.10."""
    vals = []
    for f in CODE_FIELDS:
        if f == "co_lnotab":
            if LT:
                v = kw.get("co_linetable", kw.get("co_lnotab", code.co_linetable))
            else:
                v = kw.get("co_lnotab", code.co_lnotab)
        else:
            v = kw.get(f, getattr(code, f))
        vals.append(v)
    return types.CodeType(*vals)


_BASE = compile("pass", "<verif>", "exec")


def blank_code(ncode_units, table, firstlineno=1):
    nop = dis.opmap["NOP"]
    return code_replace(
        _BASE,
        co_code=bytes([nop, 0] * ncode_units),
        co_lnotab=bytes(table),
        co_firstlineno=firstlineno,
    )


# ---------------------------------------------------------------- bit-exact fingerprints


def fbits(x):
    return struct.pack(">d", x).hex()


def compile_source(s, filename="<verif>"):
    """compile a source entry {src, mode, optimize, shift_defs}; shift_defs = k moves the `def` / `class` / lambda
    lines of the parsed tree k lines DOWN and leaves their bodies where they are, so the body lines of every such
    scope lie BELOW its co_firstlineno (what code generators and ast.copy_location produce)"""
    import ast

    src = s["src"]
    mode = s.get("mode", "exec")
    k = s.get("shift_defs", 0)
    if not k:
        return compile(src, filename, mode, dont_inherit=True, optimize=s.get("optimize", 0))
    tree = ast.parse(src, filename, mode)
    for node in ast.walk(tree):
        if isinstance(node, (ast.FunctionDef, ast.AsyncFunctionDef, ast.ClassDef, ast.Lambda)):
            node.lineno += k
            if getattr(node, "end_lineno", None) is not None and node.end_lineno < node.lineno:
                node.end_lineno = node.lineno
    return compile(tree, filename, mode, dont_inherit=True, optimize=s.get("optimize", 0))


def dec(v):
    """decimal digits of an int of any size (str() refuses more than 4300 digits); the harness' own conversion"""
    if abs(v) < 10 ** 4000:
        return str(v)
    sign = "-" if v < 0 else ""
    v = abs(v)
    parts = []
    while v:
        v, r = divmod(v, 10 ** 3000)
        parts.append(r)
    return sign + str(parts[-1]) + "".join("%03000d" % q for q in reversed(parts[:-1]))


def fp(v):
    """Bit- and type-exact, JSON-able fingerprint of a constant (code objects recursively)."""
    t = type(v)
    if v is None:
        return ["N"]
    if v is Ellipsis:
        return ["E"]
    if t is bool:
        return ["b", int(v)]
    if t is int:
        return ["i", hex(v)]          # not str(): integers above the int/str digit limit (4300) occur
    if t is float:
        return ["f", fbits(v)]
    if t is complex:
        return ["c", fbits(v.real), fbits(v.imag)]
    if t is str:
        return ["s", v.encode("utf-8", "surrogatepass").hex()]
    if t is bytes:
        return ["y", v.hex()]
    if t is tuple:
        return ["t", [fp(x) for x in v]]
    if t is frozenset:
        import json

        return ["z", sorted((fp(x) for x in v), key=lambda q: json.dumps(q, sort_keys=True))]
    if t is types.CodeType:
        return ["C", code_fp(v)]
    return ["?", repr(t)]


def code_fp(code):
    d = {}
    for f in CODE_FIELDS:
        if f == "co_lnotab":
            d["linetable"] = linetable_of(code).hex()
        elif f == "co_code":
            d[f] = code.co_code.hex()
        elif f == "co_consts":
            d[f] = [fp(c) for c in code.co_consts]
        elif f in ("co_names", "co_varnames", "co_freevars", "co_cellvars"):
            d[f] = [fp(x) for x in getattr(code, f)]
        elif f in ("co_filename", "co_name"):
            d[f] = fp(getattr(code, f))
        else:
            d[f] = getattr(code, f)
    return d


def code_diff(a, b, path="<code>"):
    """Strict attribute-by-attribute comparison; list of (path, field, a, b) differences."""
    out = []
    for f in CODE_FIELDS:
        if f == "co_consts":
            ca, cb = a.co_consts, b.co_consts
            if len(ca) != len(cb):
                out.append((path, "len(co_consts)", len(ca), len(cb)))
                continue
            for i, (x, y) in enumerate(zip(ca, cb)):
                if isinstance(x, types.CodeType) and isinstance(y, types.CodeType):
                    out.extend(code_diff(x, y, "%s.co_consts[%d]" % (path, i)))
                elif fp(x) != fp(y):
                    out.append((path, "co_consts[%d]" % i, repr(x)[:80], repr(y)[:80]))
            continue
        if f == "co_lnotab":
            x, y = linetable_of(a), linetable_of(b)
            f = "linetable"
        else:
            x, y = getattr(a, f), getattr(b, f)
        if type(x) is not type(y) or x != y or fp(x) != fp(y):
            out.append((path, f, _short(x), _short(y)))
    return out


def _short(x):
    if isinstance(x, bytes):
        h = x.hex()
        return h if len(h) < 200 else h[:200] + "..."
    r = repr(x)
    return r if len(r) < 200 else r[:200] + "..."


def all_codes(code, path="m"):
    """pre-order walk of nested code objects through co_consts"""
    yield path, code
    for i, c in enumerate(code.co_consts):
        if isinstance(c, types.CodeType):
            for x in all_codes(c, "%s.%d" % (path, i)):
                yield x


def keyfp(v):
    """The encoder's notion of "same constant" (code_data._constants.constant_key), computed
    independently: type- and bit-exact except that every NaN is the same NaN."""
    import math

    t = type(v)
    if t is float:
        return ["f", "nan" if math.isnan(v) else fbits(v)]
    if t is complex:
        return ["c", "nan" if math.isnan(v.real) else fbits(v.real), "nan" if math.isnan(v.imag) else fbits(v.imag)]
    if t is tuple:
        return ["t", [keyfp(x) for x in v]]
    if t is frozenset:
        import json

        return ["z", sorted((keyfp(x) for x in v), key=lambda q: json.dumps(q, sort_keys=True))]
    if t is types.CodeType:
        d = code_fp(v)
        d["co_consts"] = [keyfp(c) for c in v.co_consts]
        return ["C", d]
    return fp(v)


def sem_fp(code):
    """Meaning fingerprint of a code object (used only to identify NESTED code constants "up to
    serialisation artefacts" when two readings are compared; the top-level comparison is done by
    TLC, Normalize!Sem): instruction sequence with resolved operands, jump targets as instruction
    indices, lines, and the header fields that matter."""
    import dis as _dis

    b = code.co_code
    ext = _dis.EXTENDED_ARG
    firsts = {}
    start = None
    idx_of_off = {}
    n = 0
    for i in range(0, len(b), 2):
        if start is None:
            start = i
        if b[i] != ext:
            firsts[i] = start
            idx_of_off[start] = n
            n += 1
            start = None
    out = []
    cells = code.co_cellvars + code.co_freevars
    for ins in _dis.get_instructions(code):
        if ins.opcode == ext:
            continue
        op = ins.opcode
        if op in _dis.hasjabs or op in _dis.hasjrel:
            val = ["j", idx_of_off.get(ins.argval, -1), op in _dis.hasjrel]
        elif op in _dis.hasconst:
            v = code.co_consts[ins.arg]
            val = ["C", sem_fp(v)] if isinstance(v, types.CodeType) else fp(v)
        elif op in _dis.hasname:
            val = ["n", code.co_names[ins.arg]]
        elif op in _dis.haslocal:
            val = ["v", code.co_varnames[ins.arg]]
        elif op in _dis.hasfree:
            val = ["d", cells[ins.arg], ins.arg < len(code.co_cellvars)]
        elif op >= _dis.HAVE_ARGUMENT:
            val = ["i", ins.arg]
        else:
            val = 0
        out.append([ins.opname, val, addr2line(code, firsts[ins.offset])])
    fl = code.co_flags & ~0x10 & ~0x40
    fnlike = bool(fl & 1 and fl & 2)
    npar = code.co_argcount + code.co_kwonlyargcount + bool(fl & 4) + bool(fl & 8)
    doc = code.co_consts[0] if fnlike and code.co_consts and type(code.co_consts[0]) is str else None
    return [out, fl, code.co_argcount, code.co_posonlyargcount if V >= (3, 8) else 0, code.co_kwonlyargcount,
            list(code.co_varnames[:npar]) if fnlike else [], list(code.co_freevars), code.co_name, code.co_filename,
            code.co_firstlineno, code.co_stacksize, fp(doc)]
