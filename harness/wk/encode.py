"""Worker commands for the encoder family (C03, C01, C05): one event per to_code() call with the
projected input data, the relaxation passes logged by the guarded hook, CPython's own reading of the
code object that came out, and the result of decoding it again."""
import json
import math
import signal
import sys
import types

from . import cpy
from . import decode as D
from .cpy import LT, NONE

V = sys.version_info[:2]
VER = "%d%d" % V


class _Timeout(Exception):
    pass


def _alarm(signum, frame):
    raise _Timeout()


def guarded(fn, seconds=20):
    """run fn() under a CPU-time guard (the encoder's relaxation loop is the only loop whose
    termination is in question)"""
    old = signal.signal(signal.SIGVTALRM, _alarm)
    signal.setitimer(signal.ITIMER_VIRTUAL, seconds)
    try:
        return fn()
    finally:
        signal.setitimer(signal.ITIMER_VIRTUAL, 0)
        signal.signal(signal.SIGVTALRM, old)


class PyEq(object):
    """classes of Python's == on constant values (what FromArgs.__setitem__ asserts)"""

    def __init__(self):
        self.d = {}
        self.codes = []
        self.n = 0

    def fresh(self):
        self.n += 1
        return "u%d" % self.n

    def canon(self, v):
        from code_data import CodeData

        t = type(v)
        if v is None or v is Ellipsis:
            return repr(v)
        if t in (bool, int):
            return ["n", str(int(v))]
        if t is float:
            if math.isnan(v):
                return self.fresh()
            if math.isinf(v):
                return ["n", repr(v)]
            return ["n", str(int(v))] if v == int(v) else ["f", cpy.fbits(v)]
        if t is complex:
            if math.isnan(v.real) or math.isnan(v.imag):
                return self.fresh()
            if v.imag == 0:
                return self.canon(v.real)
            return ["c", repr(v.real + 0.0), repr(v.imag + 0.0)]
        if t is str:
            return ["s", v.encode("utf-8", "surrogatepass").hex()]
        if t is bytes:
            return ["y", v.hex()]
        if t is tuple:
            return ["t", [self.canon(x) for x in v]]
        if t is frozenset:
            return ["z", sorted((self.canon(x) for x in v), key=lambda q: json.dumps(q))]
        if isinstance(v, CodeData):
            for i, c in enumerate(self.codes):
                try:
                    if c == v:
                        return ["C", i]
                except Exception:
                    pass
            self.codes.append(v)
            return ["C", len(self.codes) - 1]
        return self.fresh()

    def cls(self, v):
        k = json.dumps(self.canon(v), sort_keys=True)
        if k not in self.d:
            self.d[k] = len(self.d)
        return self.d[k]


_OUT_DEFAULTS = dict(exc="", exc_type="", timeout=False, unreadable="")
_AGAIN_DEFAULTS = dict(ok=False, exc="", ran=False)


def drain_relax():
    from code_data import _blocks

    log = list(getattr(_blocks, "_verif_relax_log", []))
    del _blocks._verif_relax_log[:]
    return log


def encode_event(cd, id_, src, orig=None, sem_of=None):
    """cd.to_code() on the real library, recorded"""
    from code_data import CodeData

    it = D.Interner()
    pe = PyEq()
    values_by_tok = {}
    nested_cache = {}

    sem_of_tok = {}

    def nested_tok(v):
        k = id(v)
        if k not in nested_cache:
            try:
                nc = v.to_code()
                nested_cache[k] = it.tok(nc)
                sem_of_tok[nested_cache[k]] = it.semtok(nc)
            except BaseException:  # noqa
                nested_cache[k] = -2
            drain_relax()
        values_by_tok[nested_cache[k]] = v
        return nested_cache[k]

    drain_relax()
    e = {"id": id_, "ver": VER, "kind": "encode", "src": src, "lt": LT, "scale": 2 if V >= (3, 10) else 1}
    out = dict(_OUT_DEFAULTS)
    code = None
    try:
        code = guarded(cd.to_code)
    except _Timeout:
        out["timeout"] = True
        out["exc"] = "Timeout"
        out["exc_type"] = "Timeout"
    except BaseException as ex:  # noqa
        out["exc"] = "%s: %s" % (type(ex).__name__, ex)
        out["exc_type"] = type(ex).__name__
    log = drain_relax()
    # the first segment belongs to the outermost blocks_to_bytes call
    relax = []
    seen_begin = 0
    for rec in log:
        if rec[0] == "begin":
            seen_begin += 1
            if seen_begin > 1:
                break
        elif seen_begin == 1:
            relax.append([list(rec[1]), bool(rec[2])])
    e["relax"] = relax
    e["hook"] = seen_begin >= 1
    e["model"] = {"has": False, "passes": -1, "jumpargs": []}
    d, _ = D.lib_projection(None, it, cd, nested_tok)
    full = dict(D._LIB_DEFAULTS)
    full.update(d)
    e["d"] = full
    # nested code constants by meaning: per instruction the meaning token of a code constant, else -1
    e["ksem"] = [sem_of_tok.get(ins[2], -1) if ins[1] == "K" else -1 for ins in full["instrs"]]
    # key / ==-class of every value token that occurs in the data
    from code_data._constants import constant_key  # noqa: F401  (not used: keys are computed independently)

    toks = set()
    for ins in full["instrs"]:
        if ins[1] in "NVKCF":
            toks.add(ins[2])
    for a in full["additional"]:
        toks.add(a[1])
    for k in ("po", "pk", "va", "ko", "vk"):
        toks.update(full["args"][k])
    toks.update(full["doc"])
    toks.update(full["freevars"])
    none_tok = it.tok(None)
    toks.add(none_tok)
    km = []
    str_toks = []
    for t in sorted(toks):
        if t < 0:
            km.append([t, -100 + t, -100 + t])
            continue
        v = values_by_tok.get(t, it.values.get(t))
        if isinstance(v, types.CodeType):
            v = values_by_tok.get(t, v)
        km.append([t, it.key(v) if not isinstance(v, CodeData) else -1000 - pe.cls(v), 100000 + pe.cls(v)])
        if type(v) is str:
            str_toks.append(t)
    # the code object this data was decoded (and normalised) from, as CPython reads it (C05/C06)
    e["has_c0"] = sem_of is not None
    e["c0"] = D.cpy_reading(sem_of, it) if sem_of is not None else EMPTY_C
    if sem_of is not None:
        try:
            n1 = cd.normalize()
            e["idem"] = {"ran": True, "eq": n1 == cd, "hash": hash(n1) == hash(cd)}
        except BaseException as ex:  # noqa
            e["idem"] = {"ran": True, "eq": False, "hash": False}
    else:
        e["idem"] = {"ran": False, "eq": False, "hash": False}
    e["keymap"] = km
    e["str_toks"] = str_toks
    e["none_tok"] = none_tok
    e["out"] = out
    if code is not None:
        try:
            e["c"] = D.cpy_reading(code, it)
        except BaseException as ex:  # noqa  (dis itself fails, e.g. an operand outside its table)
            e["c"] = EMPTY_C
            out["unreadable"] = "%s: %s" % (type(ex).__name__, ex)
        insp = dict(D._INSP_DEFAULTS)
        insp.update(D.inspect_reading(code, it))
        e["insp"] = insp
        e["wide"] = D.wide_operand(code)
        again = dict(_AGAIN_DEFAULTS)
        again["ran"] = True
        try:
            again["ok"] = CodeData.from_code(code).normalize() == cd.normalize()
        except BaseException as ex:  # noqa
            again["exc"] = type(ex).__name__
        drain_relax()
        e["again"] = again
        if orig is not None:
            diff = cpy.code_diff(orig, code)
            e["rt"] = {"ran": True, "same": not diff, "fields": sorted(set(x[1].split("[")[0] for x in diff)),
                       "paths": sorted(set(x[0] for x in diff))[:5], "inner_entry": False}
        else:
            e["rt"] = {"ran": False, "same": False, "fields": [], "paths": [], "inner_entry": False}
    else:
        e["c"] = EMPTY_C
        e["insp"] = dict(D._INSP_DEFAULTS)
        e["wide"] = False
        e["again"] = dict(_AGAIN_DEFAULTS)
        e["rt"] = {"ran": orig is not None, "same": False, "fields": ["to_code raised"], "paths": [], "inner_entry": False}
    return e, code


EMPTY_C = dict(
    units=[], names=[], varnames=[], cellvars=[], freevars=[], consts=[], name_keys=[], varname_keys=[], cellvar_keys=[],
    const_keys=[], consts_sem=[], none_key=-1, expected_all=0, const_is_str=[], const_is_code=[], table=[], first=0, argcount=0, posonly=0, kwonly=0,
    flags=[], nlocals=0, stacksize=0, name=-1, filename=-1, cpy_lines=[], dis=[],
)


def _dump(evs, path):
    with open(path, "w") as fh:
        for e in evs:
            fh.write(json.dumps(e, separators=(",", ":")) + "\n")


def fromcode_failure(id_, exc, code=None):
    return {"id": id_, "ver": VER, "kind": "fromcode_fail", "exc_type": type(exc).__name__,
            "exc": "%s: %s" % (type(exc).__name__, exc),
            "flags": D.flag_bits(code.co_flags) if code is not None else []}


def entry_inside_instruction(code):
    """True if some co_lnotab entry points at a non-first code unit of a multi-unit instruction
    (the <=3.9 peephole leaves such entries when it folds constants into an EXTENDED_ARG'd
    LOAD_CONST); discriminator of a known finding"""
    if LT:
        return False
    b = code.co_code
    inner = set()
    start = None
    for i in range(0, len(b), 2):
        if b[i] == D.EXT:
            if start is None:
                start = i
        else:
            if start is not None:
                inner.update(range(start + 2, i + 2, 2))
            start = None
    tab = code.co_lnotab
    addr = 0
    for i in range(0, len(tab), 2):
        addr += tab[i]
        if addr in inner:
            return True
    return False


def corpus_to_file(files, path, optimize=0, max_units=4000, mode="exec", normalized=True):
    """for every code object: decode; encode the decoded data and (optionally) the normalised data"""
    from code_data import CodeData

    evs = []
    st = {"events": 0, "skipped": 0, "big": 0, "wide": 0, "from_code_exc": 0}
    for fn in files:
        try:
            with open(fn, "rb") as f:
                src = f.read()
            top = compile(src, fn, mode, dont_inherit=True, optimize=optimize)
        except Exception:
            st["skipped"] += 1
            continue
        for p, c in cpy.all_codes(top):
            if len(c.co_code) // 2 > max_units or len(cpy.linetable_of(c)) // 2 > 4000:
                st["big"] += 1
                continue
            if D.wide_operand(c):
                st["wide"] += 1
                continue
            id_ = "c:%s:o%d:%s:%s" % (VER, optimize, fn, p)
            try:
                cd = CodeData.from_code(c)
            except BaseException as ex:  # noqa
                st["from_code_exc"] += 1
                evs.append(fromcode_failure(id_ + ":dec", ex, c))
                continue
            ev, _ = encode_event(cd, id_ + ":dec", "decoded", orig=c)
            ev["rt"]["inner_entry"] = entry_inside_instruction(c)
            evs.append(ev)
            if normalized:
                ev, _ = encode_event(cd.normalize(), id_ + ":norm", "normalized", sem_of=c)
                evs.append(ev)
    st["events"] = len(evs)
    _dump(evs, path)
    return st


def sources_to_file(sources, path, normalized=True):
    from code_data import CodeData

    evs = []
    bad = []
    for s in sources:
        try:
            top = cpy.compile_source(s)
        except Exception as ex:
            bad.append([s["id"], type(ex).__name__])
            continue
        for p, c in cpy.all_codes(top):
            if D.wide_operand(c):
                continue
            id_ = "%s:%s:%s" % (s["id"], VER, p)
            try:
                cd = CodeData.from_code(c)
            except BaseException as ex:  # noqa
                evs.append(fromcode_failure(id_ + ":dec", ex, c))
                continue
            ev, _ = encode_event(cd, id_ + ":dec", "decoded", orig=c)
            ev["rt"]["inner_entry"] = entry_inside_instruction(c)
            evs.append(ev)
            if normalized:
                ev, _ = encode_event(cd.normalize(), id_ + ":norm", "normalized", sem_of=c)
                evs.append(ev)
    _dump(evs, path)
    return {"events": len(evs), "uncompilable": bad}


# --------------------------------------------------------------------------- spec -> code: hand-built data


def graph_data(pads, jumps, line=1):
    """the jump graph of an MC_Relax state as CodeData built by hand, without private fields:
    block b = pads[b] one-unit NOPs, then (optionally) a jump"""
    from code_data import CodeData, Instruction, Jump

    blocks = []
    for p, (kind, t) in zip(pads, jumps):
        blk = [Instruction("NOP", line_number=line) for _ in range(p)]
        if kind == "abs":
            blk.append(Instruction("JUMP_ABSOLUTE", Jump(t, False), line_number=line))
        elif kind == "rel":
            blk.append(Instruction("JUMP_FORWARD", Jump(t, True), line_number=line))
        blocks.append(tuple(blk))
    return CodeData(blocks=tuple(blocks), filename="<graph>", first_line_number=line, name="g", stacksize=1)


def freeshift_data(ncell, line=1):
    """MC_Relax family "freeshift": ncell cell variables, a load of a free variable (its operand is
    ncell + 0), a jump over it"""
    from code_data import Args, Cellvar, CodeData, Freevar, Function, Instruction, Jump

    b0 = tuple(Instruction("LOAD_CLOSURE", Cellvar("c%d" % i), line_number=line) for i in range(ncell))
    b0 += (Instruction("LOAD_DEREF", Freevar("f"), line_number=line), Instruction("JUMP_ABSOLUTE", Jump(1), line_number=line))
    return CodeData(blocks=(b0, (Instruction("NOP", line_number=line),)), filename="<graph>", first_line_number=line,
                    name="g", stacksize=ncell + 1, type=Function(Args()), freevars=("f",))


def graphs_to_file(cases, path):
    evs = []
    for c in cases:
        cd = freeshift_data(c["pads"][0]) if c.get("family") == "freeshift" else graph_data(c["pads"], c["jumps"])
        ev, code = encode_event(cd, c["id"], "hand")
        ev["model"] = {"has": True, "passes": c.get("passes", -1), "jumpargs": c.get("jumpargs", [])}
        evs.append(ev)
    _dump(evs, path)
    return len(evs)


def units_to_file(cases, path):
    """synthetic word-code streams (MC_Decode states): decode, encode, compare with the original"""
    from code_data import CodeData

    evs = []
    for c in cases:
        code = D.synth_code(c["units"], c.get("alt", False), c.get("scope") or "module")
        try:
            cd = CodeData.from_code(code)
        except BaseException as ex:  # noqa
            evs.append(fromcode_failure(c["id"], ex, code))
            continue
        ev, _ = encode_event(cd, c["id"], "decoded", orig=code)
        evs.append(ev)
    _dump(evs, path)
    return len(evs)


CONST_OF = {50: 1, 51: True, 52: 2}


def overrides_to_file(cases, path):
    """MC_Overrides states: straight-line LOAD_CONSTs with hand-set position overrides"""
    from code_data import CodeData, Constant, Instruction

    evs = []
    for c in cases:
        ins = tuple(Instruction("LOAD_CONST", Constant(CONST_OF[v], None if o == -1 else o), line_number=1) for v, o in c["prog"])
        cd = CodeData(blocks=(ins + (Instruction("RETURN_VALUE", line_number=1),),), filename="<ovr>", first_line_number=1,
                      name="o", stacksize=len(ins) + 1)
        ev, _ = encode_event(cd, c["id"], "hand")
        ev["model"] = {"has": False, "passes": -1, "jumpargs": []}
        ev["model_raises"] = c.get("raises", False)
        evs.append(ev)
    _dump(evs, path)
    return len(evs)


def direct_event(cd, id_):
    """Events too large for TLC (tables of 65 535 / 65 536 entries): the clauses of C03 are decided here, by code that
    shares nothing with the library: dis + PyCode_Addr2Line read the produced code object and every instruction of
    the DATA (flattened blocks) must be found again - same opcode, operand resolving to the given name / constant /
    local, jump landing on the first instruction of the given block, given line at the prefix and the opcode unit."""
    from code_data import Cellvar, Constant, Freevar, Jump, Name, Varname

    e = {"id": id_, "ver": VER, "kind": "direct", "ok0": False, "timeout": False, "readable": False, "operands": False,
         "jumps": False, "lines": False, "count": False, "n": sum(len(b) for b in cd.blocks)}
    drain_relax()
    try:
        code = guarded(cd.to_code)
        e["ok0"] = True
    except _Timeout:
        e["timeout"] = True
        return e
    except BaseException:  # noqa
        return e
    finally:
        drain_relax()
    try:
        ins = [i for i in D.dis.get_instructions(code)]
        e["readable"] = True
    except BaseException:  # noqa
        return e
    real = []
    start = None
    for i in ins:
        if start is None:
            start = i.offset
        if i.opcode != D.EXT:
            real.append((start, i))
            start = None
    flat = [x for b in cd.blocks for x in b]
    e["count"] = len(flat) == len(real)
    if not e["count"]:
        return e
    bstart = []
    k = 0
    for b in cd.blocks:
        bstart.append(k)
        k += len(b)
    ops = jumps = lines = True
    for (st, i), x in zip(real, flat):
        a = x.arg
        if i.opname != x.name:
            ops = False
        if isinstance(a, (Name, Varname, Cellvar, Freevar)):
            want = getattr(a, type(a).__name__.lower())
            ops = ops and i.argval == want
        elif isinstance(a, Constant):
            ops = ops and type(i.argval) is type(a.constant) and i.argval == a.constant
        elif isinstance(a, Jump):
            jumps = jumps and a.target < len(bstart) and i.argval == real[bstart[a.target]][0]
        elif isinstance(a, int):
            ops = ops and i.arg == a
        for off in (st, i.offset):
            ln = cpy.addr2line(code, off)
            lines = lines and ln == x.line_number
    e["operands"], e["jumps"], e["lines"] = ops, jumps, lines
    return e


def freeorder_to_file(cases, path):
    """hand-built data whose `freevars` are listed in an order the compilers never produce (they sort them): every
    Freevar operand must still resolve to its own name; cases = [{id, order: [names], cell: bool}]"""
    from code_data import Args, Cellvar, CodeData, Constant, Freevar, Function, Instruction

    evs = []
    for c in cases:
        ins = []
        if c.get("cell"):
            ins += [Instruction("LOAD_DEREF", Cellvar("zcell"), line_number=1), Instruction("POP_TOP", line_number=1)]
        for n in sorted(c["order"]) + list(c["order"]):
            ins += [Instruction("LOAD_DEREF", Freevar(n), line_number=1), Instruction("POP_TOP", line_number=1)]
        ins += [Instruction("LOAD_CONST", Constant(None), line_number=2), Instruction("RETURN_VALUE", line_number=2)]
        cd = CodeData(blocks=(tuple(ins),), filename="<free>", first_line_number=1, name="fo", stacksize=2,
                      type=Function(Args()), freevars=tuple(c["order"]), _nested=True)
        ev, _ = encode_event(cd, c["id"], "hand")
        evs.append(ev)
    _dump(evs, path)
    return len(evs)


def lineprogs_to_file(cases, path, first=10):
    """MC_Lines line programs as hand-built data: every run is `units` one-unit instructions that
    carry the run's line (None where the model says "no line"); the encoder must synthesise a line
    table that CPython reads back as exactly those lines (C03, per-instruction lines)"""
    from code_data import CodeData, Instruction

    evs = []
    for c in cases:
        ins = []
        for units, line in c["prog"]:
            ln = None if line == NONE else first + line
            ins.extend(Instruction("NOP", line_number=ln) for _ in range(units))
        ins.append(Instruction("RETURN_VALUE", line_number=ins[-1].line_number))
        cd = CodeData(blocks=(tuple(ins),), filename="<lines>", first_line_number=first, name="l", stacksize=1)
        ev, _ = encode_event(cd, c["id"], "hand")
        evs.append(ev)
    _dump(evs, path)
    return len(evs)


def signatures_to_file(cases, path):
    """MC_Signature shapes as hand-built functions: Args given by hand, no private fields; the code
    object that comes out must have exactly that signature (calling convention / inspect)"""
    from code_data import Args, CodeData, Constant, Function, Instruction, Varname

    evs = []
    for c in cases:
        npo, npk, nko, hva, hvk, kind = c["shape"]
        # (positional-only parameters on 3.7: hand-built data or a 3.8+ document; the encoder must refuse it, it cannot
        # express it - if it encodes anyway, the signature clauses compare what comes out with the data)
        a = Args(tuple("p%d" % i for i in range(npo)), tuple("a%d" % i for i in range(npk)), "args" if hva else None,
                 tuple("k%d" % i for i in range(nko)), "kw" if hvk else None)
        body = []
        # touch the parameters in reverse order, then a local: the encoder must still lay co_varnames out as CPython does
        for n in reversed(list(a.parameters)):
            body.append(Instruction("LOAD_FAST", Varname(n), line_number=2))
            body.append(Instruction("POP_TOP", line_number=2))
        body.append(Instruction("LOAD_CONST", Constant("not a docstring"), line_number=2))
        body.append(Instruction("STORE_FAST", Varname("local"), line_number=2))
        body.append(Instruction("LOAD_CONST", Constant(None), line_number=3))
        body.append(Instruction("RETURN_VALUE", line_number=3))
        cd = CodeData(blocks=(tuple(body),), filename="<sig>", first_line_number=1, name="f", stacksize=2,
                      type=Function(a, c.get("doc"), kind or None))
        ev, _ = encode_event(cd, c["id"], "hand")
        evs.append(ev)
    _dump(evs, path)
    return len(evs)


def bigtables_to_file(cases, path):
    """hand-built data whose tables cross the one-byte (and, in thorough, two-byte) operand boundary:
    n distinct names / constants / locals each used once in order, a backward and a forward jump across them"""
    from code_data import Args, CodeData, Constant, Function, Instruction, Jump, Name, Varname

    evs = []
    for c in cases:
        n, kind = c["n"], c["kind"]
        if kind == "names":
            loads = [Instruction("LOAD_NAME", Name("n%d" % i), line_number=1) for i in range(n)]
        elif kind == "consts":
            loads = [Instruction("LOAD_CONST", Constant(i * 3 + 1000), line_number=1) for i in range(n)]
        else:
            loads = [Instruction("LOAD_FAST", Varname("v%d" % i), line_number=1) for i in range(n)]
        pops = [Instruction("POP_TOP", line_number=2) for _ in range(n)]
        b0 = (Instruction("JUMP_FORWARD", Jump(2, True), line_number=1),)
        b1 = tuple(loads) + tuple(pops) + (Instruction("JUMP_ABSOLUTE", Jump(1), line_number=2),)
        b2 = (Instruction("LOAD_CONST", Constant(None), line_number=3), Instruction("RETURN_VALUE", line_number=3))
        cd = CodeData(blocks=(b0, b1, b2), filename="<big>", first_line_number=1, name="big", stacksize=n + 1,
                      type=Function(Args()) if kind == "locals" else None)
        if c.get("direct"):
            evs.append(direct_event(cd, c["id"]))
            continue
        ev, _ = encode_event(cd, c["id"], "hand")
        evs.append(ev)
    _dump(evs, path)
    return len(evs)
