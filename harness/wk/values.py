"""Worker commands for C08: equality / hash / immutability of CodeData values."""
import copy
import ctypes
import dataclasses
import json
import sys

from . import cpy
from . import jsonw

V = sys.version_info[:2]
VER = "%d%d" % V

_ckey = ctypes.pythonapi._PyCode_ConstantKey
_ckey.argtypes = [ctypes.py_object]
_ckey.restype = ctypes.py_object


_NOKEY = object()


def fresh(v):
    """an equal value made of new objects (a different NaN object in particular)"""
    t = type(v)
    if t is float:
        return float(repr(v)) if v == v else float("nan")
    if t is complex:
        return complex(fresh(v.real), fresh(v.imag))
    if t is tuple:
        return tuple(fresh(x) for x in v)
    if t is frozenset:
        return frozenset(fresh(x) for x in v)
    if t is str:
        return "".join(list(v))
    if t is bytes:
        return bytes(bytearray(v))
    if t is int and not isinstance(v, bool):
        return int(hex(v), 16)
    return v


def routes(value):
    """the same constant reached by different routes -> {route: Constant}"""
    from code_data import CodeData, Constant

    out = {}
    out["direct"] = Constant(value)
    out["fresh"] = Constant(fresh(value))
    cd = jsonw.carrier(value, "operand")
    try:
        back = CodeData.from_json_data(json.loads(json.dumps(cd.to_json_data(), allow_nan=False)))
        out["json"] = back.blocks[0][0].arg
    except BaseException:  # noqa
        pass
    try:
        back = CodeData.from_code(cd.to_code())
        out["code"] = back.blocks[0][0].arg
        out["norm"] = back.normalize().blocks[0][0].arg
    except BaseException:  # noqa
        pass
    return out


ROUTES = ["direct", "fresh", "json", "code", "norm"]


def pairs_to_file(terms, path):
    """terms: [[id, term]] -> one event per term i: for every pair of routes, the set of j that
    compare equal to i; hash consistency; CPython's own constant-key partition"""
    from code_data import CodeData

    vals = [jsonw.term_value(t) for _, t in terms]
    objs = [routes(v) for v in vals]
    ckeys = []
    for v in vals:
        try:
            ckeys.append(_ckey(v))
        except BaseException:  # noqa
            ckeys.append(_NOKEY)
    carriers = [jsonw.carrier(v, "operand") for v in vals]
    evs = [{"id": "terms", "kind": "terms", "terms": [t for _, t in terms]}]
    n = len(terms)
    for i in range(n):
        e = {"id": "p:%s:%s" % (VER, terms[i][0]), "kind": "pairs", "ver": VER, "i": i + 1, "eq": [], "hash_bad": [],
             "asym": [], "set_bad": [], "refl_bad": [], "missing_routes": [r for r in ROUTES if r not in objs[i]],
             "cpy_same": [], "carrier_eq": [], "carrier_hash_bad": [], "exc": ""}
        try:
            for ra in ROUTES:
                if ra not in objs[i]:
                    continue
                a = objs[i][ra]
                if not (a == a):
                    e["refl_bad"].append(ra)
                for rb in ROUTES:
                    js = []
                    for j in range(n):
                        if rb not in objs[j]:
                            continue
                        b = objs[j][rb]
                        ab = a == b
                        if ab != (b == a) or ab == (a != b):
                            e["asym"].append([ra, rb, j + 1])
                        if ab:
                            js.append(j + 1)
                            if hash(a) != hash(b):
                                e["hash_bad"].append([ra, rb, j + 1])
                            if len({a, b}) != 1 or ({a: 1}.get(b) != 1):
                                e["set_bad"].append([ra, rb, j + 1])
                    e["eq"].append([ra, rb, js])
            e["cpy_same"] = [j + 1 for j in range(n) if ckeys[i] is not _NOKEY and ckeys[j] is not _NOKEY and _same_key(ckeys[i], ckeys[j])]
            for j in range(n):
                if carriers[i] == carriers[j]:
                    e["carrier_eq"].append(j + 1)
                    if hash(carriers[i]) != hash(carriers[j]):
                        e["carrier_hash_bad"].append(j + 1)
        except BaseException as ex:  # noqa
            e["exc"] = "%s: %s" % (type(ex).__name__, ex)
        evs.append(e)
    with open(path, "w") as fh:
        for e in evs:
            fh.write(json.dumps(e, separators=(",", ":")) + "\n")
    return len(evs) - 1


def _same_key(a, b):
    try:
        return hash(a) == hash(b) and a == b
    except BaseException:  # noqa
        return False


def rebuild(x):
    """an equal value in which every dataclass instance, tuple and constant is a new object (hand construction)"""
    if dataclasses.is_dataclass(x) and not isinstance(x, type):
        return type(x)(**{f.name: rebuild(getattr(x, f.name)) for f in dataclasses.fields(x)})
    if type(x) is tuple:
        return tuple(rebuild(y) for y in x)
    if type(x) is frozenset:
        return frozenset(rebuild(y) for y in x)
    return fresh(x)


def program_routes(d):
    """the same program's data by different routes: {route: CodeData}"""
    from code_data import CodeData

    out = {"dec": d}
    out["json"] = CodeData.from_json_data(json.loads(json.dumps(d.to_json_data(), allow_nan=False)))
    out["hand"] = rebuild(d)
    out["recode"] = CodeData.from_code(d.to_code())
    out["norm"] = d.normalize()
    out["norm_json"] = out["json"].normalize()
    out["norm_hand"] = rebuild(out["norm"])
    return out


def frozen_to_file(sources, path):
    """every field of every dataclass instance reachable from decoded data refuses assignment and
    deletion and keeps its value; two separately compiled identical sources decode to equal data"""
    from code_data import CodeData

    evs = []
    for s in sources:
        e = {"id": "f:%s:%s" % (VER, s["id"]), "kind": "frozen", "ver": VER, "assignable": [], "changed": False,
             "twice_eq": False, "twice_hash": False, "hashable": False, "exc": "",
             "route_uneq": [], "route_hash_bad": [], "route_code_bad": [], "mutable": []}
        try:
            c1 = compile(s["src"], "<v>", s.get("mode", "exec"), dont_inherit=True)
            c2 = compile(s["src"], "<v>", s.get("mode", "exec"), dont_inherit=True)
        except Exception:
            continue  # not a program for this interpreter
        try:
            d1 = CodeData.from_code(c1)
            d2 = CodeData.from_code(c2)
            e["twice_eq"] = d1 == d2 and not (d1 != d2)
            try:
                e["twice_hash"] = hash(d1) == hash(d2)
                e["hashable"] = True
            except TypeError:
                e["hashable"] = False
            # routes: the routes of one group must give equal data; ANY two equal values (whatever the route, nested code
            # data included) must hash alike and encode to identical code objects
            for d0 in [d1] + [x for x in d1.all_code_data()][1:4]:
                rs = program_routes(d0)
                for grp in (("dec", "json", "hand", "recode"), ("norm", "norm_json", "norm_hand")):
                    for r in grp[1:]:
                        if not (rs[grp[0]] == rs[r]):
                            e["route_uneq"].append("%s/%s" % (grp[0], r))
                names = sorted(rs)
                codes = {}
                for r in names:
                    try:
                        codes[r] = json.dumps(cpy.keyfp(rs[r].to_code()), sort_keys=True)
                    except BaseException as ex:  # noqa
                        codes[r] = "exc:" + type(ex).__name__
                for i_, ra in enumerate(names):
                    for rb in names[i_ + 1:]:
                        if rs[ra] == rs[rb]:
                            if hash(rs[ra]) != hash(rs[rb]):
                                e["route_hash_bad"].append("%s/%s" % (ra, rb))
                            if codes[ra] != codes[rb]:
                                e["route_code_bad"].append("%s/%s" % (ra, rb))
            before = json.dumps(_fpd(d1), sort_keys=True)
            seen = []

            def walk(x, path="x"):
                if dataclasses.is_dataclass(x) and not isinstance(x, type):
                    seen.append(x)
                    for f in dataclasses.fields(x):
                        walk(getattr(x, f.name), path + "." + f.name)
                elif type(x) in (tuple, frozenset):
                    for y in x:
                        walk(y, path + "[]")
                elif not (x is None or x is Ellipsis or type(x) in (str, bytes, int, float, complex, bool)):
                    # a list, dict, set, bytearray ... inside a value that is supposed to be immutable
                    e["mutable"].append("%s: %s" % (path, type(x).__name__))

            walk(d1)
            for x in seen:
                for f in dataclasses.fields(x):
                    for how in ("set", "del"):
                        try:
                            if how == "set":
                                setattr(x, f.name, None)
                            else:
                                delattr(x, f.name)
                            e["assignable"].append("%s.%s:%s" % (type(x).__name__, f.name, how))
                        except dataclasses.FrozenInstanceError:
                            pass
                        except BaseException as ex:  # noqa
                            e["assignable"].append("%s.%s:%s:%s" % (type(x).__name__, f.name, how, type(ex).__name__))
            e["changed"] = json.dumps(_fpd(d1), sort_keys=True) != before
        except BaseException as ex:  # noqa
            e["exc"] = "%s: %s" % (type(ex).__name__, ex)
        evs.append(e)
    with open(path, "w") as fh:
        for e in evs:
            fh.write(json.dumps(e, separators=(",", ":")) + "\n")
    return len(evs)


def _fpd(x):
    from .api import deep_fp

    return deep_fp(x)


# --------------------------------------------------------------------------- single-attribute perturbations

SWAPS = [(1, True), (True, 1), (0, False), (1, 1.0), (0.0, -0.0), (-0.0, 0.0), ("a", b"a"), (b"a", "a"), (1.0, 1)]


def perturbations(code):
    """code objects that differ from `code` in exactly one attribute (all still constructible)"""
    out = []
    out.append(("nested", cpy.code_replace(code, co_flags=code.co_flags ^ 0x10)))
    out.append(("stacksize", cpy.code_replace(code, co_stacksize=code.co_stacksize + 1)))
    out.append(("filename", cpy.code_replace(code, co_filename=code.co_filename + "x")))
    out.append(("name", cpy.code_replace(code, co_name=code.co_name + "x")))
    out.append(("firstlineno", cpy.code_replace(code, co_firstlineno=code.co_firstlineno + 1)))
    if code.co_names:
        out.append(("names", cpy.code_replace(code, co_names=(code.co_names[0] + "x",) + code.co_names[1:])))
    for i, v in enumerate(code.co_consts):
        for a, b in SWAPS:
            if type(v) is type(a) and v == a and (repr(v) == repr(a)):
                cs = list(code.co_consts)
                cs[i] = b
                out.append(("const:%s->%s" % (type(a).__name__, type(b).__name__), cpy.code_replace(code, co_consts=tuple(cs))))
                break
        if type(v) is tuple and v and type(v[0]) is int and not isinstance(v[0], bool):
            cs = list(code.co_consts)
            cs[i] = (float(v[0]),) + v[1:]
            out.append(("const:tuple-int->float", cpy.code_replace(code, co_consts=tuple(cs))))
    return out


def perturb_to_file(sources, path, files=()):
    """equal CodeData must encode to identical code objects: data decoded from two code objects that
    differ in one attribute are either unequal, or equal with equal hash and identical to_code()"""
    from code_data import CodeData

    evs = []
    tops = []
    for s in sources:
        try:
            tops.append((s["id"], compile(s["src"], "<v>", s.get("mode", "exec"), dont_inherit=True)))
        except Exception:
            pass
    for fn in files:
        try:
            with open(fn, "rb") as f:
                tops.append((fn, compile(f.read(), fn, "exec", dont_inherit=True)))
        except Exception:
            pass
    for tid, top in tops:
        for p, c in cpy.all_codes(top):
            if len(c.co_code) > 4000:
                continue
            e = {"id": "x:%s:%s:%s" % (VER, tid, p), "kind": "perturb", "ver": VER, "perts": [], "exc": ""}
            try:
                d = CodeData.from_code(c)
                for what, c2 in perturbations(c):
                    try:
                        d2 = CodeData.from_code(c2)
                    except BaseException:  # noqa
                        continue
                    eq = d == d2
                    rec = [what, eq, True, True, what.startswith("const:")]
                    if eq:
                        rec[2] = hash(d) == hash(d2)
                        rec[3] = not cpy.code_diff(d.to_code(), d2.to_code())
                    e["perts"].append(rec)
            except BaseException as ex:  # noqa
                e["exc"] = "%s: %s" % (type(ex).__name__, ex)
            evs.append(e)
    with open(path, "w") as fh:
        for e in evs:
            fh.write(json.dumps(e, separators=(",", ":")) + "\n")
    return len(evs)
