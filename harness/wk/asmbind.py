"""Assembler binding: build programs as ASTs with chosen line numbers, compile them with this
interpreter's compiler and describe them as abstract line programs (runs) for Trace_Asm.tla."""
import ast
import json
import sys

from . import cpy

V = sys.version_info[:2]
ASM = {(3, 7): "a37", (3, 8): "a38", (3, 9): "a39"}.get(V, "a310")


def _loc(node, line):
    node.lineno = line
    node.col_offset = 0
    if V >= (3, 8):
        node.end_lineno = line
        node.end_col_offset = 0
    return node


def _stmt(n_units, line):
    """an expression statement that compiles to exactly n_units code units (n_units >= 2) on every
    version: a left-nested chain  a+a+...+a  of N names is 2N-1 units, POP_TOP one more; an odd
    size wraps the chain in a 1-tuple (BUILD_TUPLE 1)."""
    names = n_units // 2
    e = _loc(ast.Name(id="a", ctx=ast.Load()), line)
    for _ in range(names - 1):
        e = _loc(ast.BinOp(left=e, op=ast.Add(), right=_loc(ast.Name(id="a", ctx=ast.Load()), line)), line)
    if n_units % 2:
        e = _loc(ast.Tuple(elts=[e], ctx=ast.Load()), line)
    return _loc(ast.Expr(value=e), line)


def build(stmts):
    """stmts: [{"line": rel, "n": units of the expression statement (0 = none), "ret": bool}]
    rendered as the body of `def f():` whose def line is 1 (co_firstlineno of f)."""
    body = []
    for s in stmts:
        line = 1 + s["line"]
        if s["n"]:
            body.append(_stmt(s["n"], line))
        if s.get("ret"):
            body.append(_loc(ast.Return(value=None), line))
    args = ast.arguments(args=[], vararg=None, kwonlyargs=[], kw_defaults=[], kwarg=None, defaults=[])
    if V >= (3, 8):
        args.posonlyargs = []
    fd = _loc(ast.FunctionDef(name="f", args=args, body=body, decorator_list=[], returns=None), 1)
    if V >= (3, 8):
        fd.type_comment = None
        mod = ast.Module(body=[fd], type_ignores=[])
    else:
        mod = ast.Module(body=[fd])
    code = compile(mod, "<asm>", "exec")
    return [c for c in code.co_consts if hasattr(c, "co_code")][0]


def describe(stmts):
    """the abstract line program this interpreter's compiler is expected to assemble:
    runs [[units, rel line]], removed unit indices (0-based)"""
    runs = []
    removed = []
    dead = False
    off = 0
    returned = False
    for s in stmts:
        parts = ([s["n"]] if s["n"] else []) + ([2] if s.get("ret") else [])
        for k, u in enumerate(parts):
            if dead and ASM == "a310":
                continue  # 3.10 drops unreachable code before assembling
            runs.append([u, s["line"]])  # every statement carries its own marker (3.7/3.8: even on the same line)
            if dead:
                removed.append([off, off + u])
            off += u
            if s.get("ret") and k == len(parts) - 1:
                dead = True
                returned = True
    if not returned:
        runs[-1][0] += 2  # implicit `return None` carries the last line
    return runs, removed


def check_programs(progs):
    raise NotImplementedError


def programs_to_file(progs, path):
    evs = []
    for p in progs:
        f = build(p["stmts"])
        runs, removed = describe(p["stmts"])
        if f.co_firstlineno != 1:
            raise RuntimeError("unexpected first line %r" % f.co_firstlineno)
        evs.append({"id": p["id"], "asm": ASM, "runs": runs, "removed": removed,
                    "table": list(cpy.linetable_of(f)), "ncode": len(f.co_code) // 2})
    with open(path, "w") as fh:
        for e in evs:
            fh.write(json.dumps(e, separators=(",", ":")) + "\n")
    return len(evs)
