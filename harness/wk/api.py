"""Worker commands for the API history machine (C06, C07, C12, C15): replay a history of Api.tla on
real objects and record, after every step, which earlier objects the new object equals and whether
any object in the store changed."""
import dataclasses
import json
import random
import sys
import types

from . import asm, cpy

V = sys.version_info[:2]
VER = "%d%d" % V


def deep_fp(x):
    """structural, type-exact fingerprint of anything that can sit in the store"""
    t = type(x)
    if isinstance(x, types.CodeType):
        return ["code", cpy.code_fp(x)]
    if dataclasses.is_dataclass(x) and not isinstance(x, type):
        return ["dc", t.__name__, [[f.name, deep_fp(getattr(x, f.name))] for f in dataclasses.fields(x)]]
    if t is dict:
        return ["dict", [[deep_fp(k), deep_fp(v)] for k, v in x.items()]]
    if t is list:
        return ["list", [deep_fp(v) for v in x]]
    if t in (tuple, frozenset, str, bytes, int, float, complex, bool, type(None), type(Ellipsis)):
        return cpy.fp(x)
    return ["obj", t.__name__, repr(x)[:80]]


def canon_json(x):
    """JSON document with the listing order of frozenset nodes normalised (it is unordered)"""
    if type(x) is dict:
        if set(x) == {"frozenset"} and type(x["frozenset"]) is list:
            return {"frozenset": sorted((canon_json(v) for v in x["frozenset"]), key=lambda q: json.dumps(q, sort_keys=True))}
        return {k: canon_json(v) for k, v in x.items()}
    if type(x) is list:
        return [canon_json(v) for v in x]
    return x


def json_key(doc):
    return json.dumps(deep_fp(canon_json(doc)), sort_keys=True)


def equal_objs(kind, a, b):
    """(equal, hash_ok)"""
    if kind == "code":
        # all NaNs are identified along the JSON route (C07/C08): compare by constant key
        return json.dumps(cpy.keyfp(a), sort_keys=True) == json.dumps(cpy.keyfp(b), sort_keys=True), True
    if kind == "data":
        eq = a == b
        return eq, (hash(a) == hash(b)) if eq else True
    if kind == "json":
        return json_key(a) == json_key(b), True
    if kind == "text":
        try:
            return json_key(json.loads(a)) == json_key(json.loads(b)), True
        except Exception:
            return a == b, True
    return False, True


def mutate_doc(doc):
    """what a user might do to a returned document: change a top-level value, a nested dict and a
    nested list in place"""
    doc["filename"] = "MUTATED"
    if "blocks" in doc and doc["blocks"] and doc["blocks"][0]:
        ins = doc["blocks"][0][0]
        ins["name"] = "MUTATED"
        if isinstance(ins.get("arg"), dict):
            ins["arg"]["mutated"] = True
        doc["blocks"][0].append({"name": "NOP"})
    if isinstance(doc.get("type"), dict):
        doc["type"]["docstring"] = "MUTATED"
        args = doc["type"].get("args")
        if isinstance(args, dict):
            args.setdefault("positional_or_keyword", []).append("mutated")
    if "_additional_args" in doc:
        doc["_additional_args"].append({"name": "mutated"})
    doc["new_key"] = [1, 2, 3]


def base_objects(base, rnd):
    from code_data import CodeData  # noqa: F401

    code = compile(base["src"], "<api>", base.get("mode", "exec"), dont_inherit=True)
    if base.get("target"):
        code = [c for p, c in cpy.all_codes(code) if c.co_name == base["target"]][0]
    # a layout variant of the whole tree (nested code objects get variants too)
    memo = {}

    def var_of(c):
        for k in c.co_consts:
            if isinstance(k, types.CodeType) and id(k) not in memo:
                memo[id(k)] = var_of(k)
        v, edits = asm.variant(c, rnd, memo)
        return v

    variant = var_of(code)
    if json.dumps(cpy.sem_fp(variant)) != json.dumps(cpy.sem_fp(code)):
        raise RuntimeError("variant self-check failed (machinery)")
    return code, variant


def run_history(code, variant, hist):
    from code_data import CodeData

    store = [("code", code), ("code", variant)]
    snaps = [json.dumps(deep_fp(code), sort_keys=True), json.dumps(deep_fp(variant), sort_keys=True)]
    steps = []
    for op, arg in hist:
        i = arg - 1
        kind, obj = store[i]
        st = {"op": op, "arg": arg, "raised": "", "eq": [], "hash_bad": [], "changed": [], "new": 0}
        new = None
        try:
            if op == "FromCode":
                new = ("data", CodeData.from_code(obj))
            elif op == "ToCode":
                new = ("code", obj.to_code())
            elif op == "Normalize":
                new = ("data", obj.normalize())
            elif op == "ToJson":
                new = ("json", obj.to_json_data())
            elif op == "Dumps":
                new = ("text", json.dumps(obj, allow_nan=False))
            elif op == "Loads":
                new = ("json", json.loads(obj))
            elif op == "FromJson":
                new = ("data", CodeData.from_json_data(obj))
            elif op == "Mutate":
                mutate_doc(obj)
                snaps[i] = json.dumps(deep_fp(obj), sort_keys=True)
        except BaseException as ex:  # noqa
            st["raised"] = "%s: %s" % (type(ex).__name__, str(ex)[:100])
        # purity: every object still has the fingerprint it had (mutated documents: since the mutation)
        for j, (k, o) in enumerate(store):
            if json.dumps(deep_fp(o), sort_keys=True) != snaps[j]:
                st["changed"].append(j + 1)
        if new is not None:
            for j, (k, o) in enumerate(store):
                if k == new[0]:
                    try:
                        eq, hok = equal_objs(k, o, new[1])
                    except BaseException as ex:  # noqa
                        eq, hok = False, True
                        st["raised"] = st["raised"] or "compare: %s" % type(ex).__name__
                    if eq:
                        st["eq"].append(j + 1)
                    if not hok:
                        st["hash_bad"].append(j + 1)
            if new[0] == "data":
                try:
                    hash(new[1])
                except BaseException as ex:  # noqa
                    st["hash_bad"].append(0)
            store.append(new)
            snaps.append(json.dumps(deep_fp(new[1]), sort_keys=True))
            st["new"] = len(store)
        steps.append(st)
        if st["raised"]:
            break
    return steps


def histories_to_file(bases, histories, path, seed=0):
    evs = []
    for b in bases:
        rnd = random.Random("%s:%s" % (seed, b["id"]))
        code, variant = base_objects(b, rnd)
        for hi, hist in enumerate(histories):
            steps = run_history(code, variant, hist)
            evs.append({"id": "h:%s:%s:%d" % (VER, b["id"], hi), "ver": VER, "hist": hist, "steps": steps})
    with open(path, "w") as fh:
        for e in evs:
            fh.write(json.dumps(e, separators=(",", ":")) + "\n")
    return len(evs)


def variants_to_file(files, path, nvariants=3, seed=0, max_units=3000, sources=None):
    """layout variants of real compiled code objects: each must normalise to the same CodeData"""
    from code_data import CodeData

    evs = []
    st = {"events": 0, "selfcheck_failed": 0, "skipped": 0}
    tops = []
    for fn in files:
        try:
            with open(fn, "rb") as f:
                tops.append((fn, compile(f.read(), fn, "exec", dont_inherit=True)))
        except Exception:
            st["skipped"] += 1
    for s in sources or []:
        try:
            tops.append((s["id"], compile(s["src"], "<variants>", s.get("mode", "exec"), dont_inherit=True)))
        except Exception:
            st["skipped"] += 1
    for fn, top in tops:
        if len(top.co_code) // 2 > max_units:
            continue
        try:
            n0 = CodeData.from_code(top).normalize()
            c0 = n0.to_code()
        except BaseException as ex:  # noqa
            evs.append({"id": "v:%s:%s" % (VER, fn), "ver": VER, "kind": "variants", "base_exc": type(ex).__name__,
                        "edits": [], "eq": [], "hash": [], "code": [], "exc": []})
            continue
        sem0 = json.dumps(cpy.sem_fp(top), sort_keys=True)
        e = {"id": "v:%s:%s" % (VER, fn), "ver": VER, "kind": "variants", "base_exc": "", "edits": [], "eq": [], "hash": [],
             "code": [], "exc": []}
        for k in range(nvariants):
            rnd = random.Random("%s:%s:%d" % (seed, fn, k))
            memo = {}

            def var_of(c):
                for x in c.co_consts:
                    if isinstance(x, types.CodeType) and id(x) not in memo:
                        memo[id(x)] = var_of(x)
                return asm.variant(c, rnd, memo)[0]

            try:
                v, edits = None, []
                for x in top.co_consts:
                    if isinstance(x, types.CodeType) and id(x) not in memo:
                        memo[id(x)] = var_of(x)
                v, edits = asm.variant(top, rnd, memo)
                if json.dumps(cpy.sem_fp(v), sort_keys=True) != sem0:
                    st["selfcheck_failed"] += 1
                    continue
            except Exception:
                st["selfcheck_failed"] += 1
                continue
            e["edits"].append(edits)
            try:
                nk = CodeData.from_code(v).normalize()
                e["eq"].append(nk == n0)
                e["hash"].append(hash(nk) == hash(n0))
                e["code"].append(not cpy.code_diff(nk.to_code(), c0))
                e["exc"].append("")
            except BaseException as ex:  # noqa
                e["eq"].append(False)
                e["hash"].append(False)
                e["code"].append(False)
                e["exc"].append(type(ex).__name__)
        # the same artefact written at the data level (what a JSON author or an editing tool can produce): redundant
        # EXTENDED_ARG widths on instructions that are NOT jumps; the decoder never records those, normalize must
        # still erase them, directly and after a code round trip of the edited data
        try:
            ed = _widen_non_jumps(CodeData.from_code(top))
        except BaseException:  # noqa
            ed = None
        if ed is not None:
            try:
                ce = ed.to_code()
                ok = json.dumps(cpy.sem_fp(ce), sort_keys=True) == sem0
            except BaseException:  # noqa
                ce, ok = None, False
            if not ok:
                st["selfcheck_failed"] += 1
            for label, mk in (("data:wide_non_jumps", lambda: ed.normalize()),
                              ("data:wide_non_jumps:recoded", lambda: CodeData.from_code(ed.normalize().to_code()).normalize())):
                if label.endswith("recoded") and not ok:
                    continue
                e["edits"].append([label])
                try:
                    nk = mk()
                    e["eq"].append(nk == n0)
                    e["hash"].append(hash(nk) == hash(n0))
                    e["code"].append(not cpy.code_diff(nk.to_code(), c0))
                    e["exc"].append("")
                except BaseException as ex:  # noqa
                    e["eq"].append(False)
                    e["hash"].append(False)
                    e["code"].append(False)
                    e["exc"].append(type(ex).__name__)
        evs.append(e)
    st["events"] = len(evs)
    with open(path, "w") as fh:
        for e in evs:
            fh.write(json.dumps(e, separators=(",", ":")) + "\n")
    return st


def _widen_non_jumps(data, limit=3):
    """data equal to `data` except that up to `limit` non-jump instructions of the top-level blocks ask for one
    EXTENDED_ARG prefix (width 2); None when there is no such instruction"""
    import dataclasses

    from code_data import Jump

    n = 0
    blocks = []
    for b in data.blocks:
        nb = []
        for ins in b:
            if n < limit and not isinstance(ins.arg, Jump) and ins._n_args_override is None:
                ins = dataclasses.replace(ins, _n_args_override=2)
                n += 1
            nb.append(ins)
        blocks.append(tuple(nb))
    return dataclasses.replace(data, blocks=tuple(blocks)) if n else None
